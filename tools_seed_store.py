#!/usr/bin/env python3
"""tools_seed_store.py <id> <agent_out_dir> <A|B> <property> <result-line...>: store a confirmed seeded change under /verif/seeded/<id>/"""
import json, os, shutil, sys, re
sid, out, which, prop = sys.argv[1:5]
results = sys.argv[5:]
d = os.path.join('/verif/seeded', sid)
os.makedirs(d, exist_ok=True)
shutil.copy(os.path.join(out, which + '.diff'), os.path.join(d, 'patch.diff'))
demo = os.path.join(out, 'zz_demo_%s_test.go' % which)
shutil.copy(demo, os.path.join(d, os.path.basename(demo) + '.txt'))   # .txt: not compiled by anything under /verif
md = open(os.path.join(out, which + '.md')).read()
open(os.path.join(d, 'description.md'), 'w').write(md)
first = open(demo).readline()
meta = {
    "id": sid, "breaks_property": prop,
    "source": "independent sub-agent given only the property text and its own scratch worktree",
    "demonstration": os.path.basename(demo) + ".txt (" + first.strip().lstrip('/ ') + "; rename to _test.go)",
    "needs_to_manifest": re.sub(r'\s+', ' ', md)[:900],
    "confirmed": {"builds": True, "suite_passes_with_change": True, "demo_fails_with_change": True, "demo_passes_without_change": True,
                  "how": "tools_confirm.sh in the agent's scratch worktree (go build ./..., full go test -vet=off -count=1 ./..., demo both ways)"},
    "checks_run": results,
}
json.dump(meta, open(os.path.join(d, 'meta.json'), 'w'), indent=1)
print("stored", d)
