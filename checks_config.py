# Per-property configuration of the checks: which test functions make up the check, how many
# processes and rapid checks per process in each tier, and the level claimed.
def part(test, q_procs, q_checks, t_procs, t_checks, **kw):
    d = {"test": test, "procs": {"quick": q_procs, "thorough": t_procs},
         "checks": {"quick": q_checks, "thorough": t_checks}}
    d.update(kw)
    return d

CHECKS = {
    "C01": {"level": "exploration", "scheduled": True,
            "parts": [part("TestC01", 8, 150, 16, 2000)]},
    "C11": {"level": "exploration",
            "parts": [part("TestC11Enum", 1, 1, 1, 1), part("TestC11Small", 2, 3000, 6, 200000), part("TestC11Big", 8, 10, 16, 400)]},
    "C08": {"level": "exploration", "scheduled": True,
            "parts": [part("TestC08", 8, 150, 16, 1500)]},
    "C17": {"level": "exploration",
            "parts": [part("TestC17", 8, 200, 16, 2000)]},
    "C07": {"level": "exploration", "scheduled": True,
            "parts": [part("TestC07", 8, 150, 16, 1500)]},
    "C02": {"level": "exploration", "scheduled": True,
            "parts": [part("TestC02", 6, 150, 12, 2000), part("TestC02", 2, 150, 4, 2000, env={"BOWL_DEBUG_BROKEN_RENAME": "1"})]},
    "C13": {"level": "fault_enumeration",
            "parts": [part("TestC13", 8, 60, 16, 1500)]},
    "C14": {"level": "exploration",
            "parts": [part("TestC14", 8, 150, 16, 6000)]},
    "C03": {"level": "fault_enumeration",
            "parts": [part("TestC03", 8, 150, 16, 1500)]},
    "C09": {"level": "exploration",
            "parts": [part("TestC09", 8, 150, 16, 2000)]},
    "C05": {"level": "exploration", "scheduled": True,
            "parts": [part("TestC05", 8, 150, 16, 2500)]},
    "C06": {"level": "exploration", "scheduled": True,
            "parts": [part("TestC06", 8, 150, 16, 2500)]},
    "C16": {"level": "exploration", "scheduled": True,
            "parts": [part("TestC16", 8, 150, 16, 2500)]},
    "C18": {"level": "exploration", "scheduled": True,
            "parts": [part("TestC18", 8, 200, 16, 4000)]},
    "C12": {"level": "exploration", "scheduled": True,
            "parts": [part("TestC12", 8, 150, 16, 3000), part("TestC12Lru", 2, 2000, 4, 100000)]},
    "C19": {"level": "exploration", "scheduled": True,
            "parts": [part("TestC19", 8, 300, 16, 2500)]},
    "C15": {"level": "exploration", "scheduled": True,
            "parts": [part("TestC15", 8, 40, 16, 600),
                      part("TestC15Race", 1, 25, 2, 300, race=True, env={"GOMAXPROCS": "1"}),
                      part("TestC15Race", 1, 25, 2, 300, race=True, env={"GOMAXPROCS": "2"}),
                      part("TestC15Race", 1, 25, 2, 300, race=True, env={"GOMAXPROCS": "4"}),
                      part("TestC15Race", 1, 25, 2, 300, race=True, env={"GOMAXPROCS": "16"})]},
    "C10": {"level": "exploration",
            "parts": [part("TestC10", 8, 12, 16, 300)]},
    "C04": {"level": "exploration", "scheduled": True,
            "parts": [part("TestC04", 8, 100, 16, 1500)]},
}
NOT_APPLICABLE = {}
