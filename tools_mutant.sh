#!/bin/bash
# tools_mutant.sh <name> <patch.diff> <tier> <prop>... : run checks against a scratch copy of /repo with the
# patch applied (VERIF_REPO override; /repo itself, evidence/ and replays/ are not touched).
# Prints one line per property: CAUGHT / MISSED / TROUBLE.
set -u
name=$1; diff=$2; tier=$3; shift 3
scratch=/dev/shm/mutant.$name.$$
rm -rf $scratch; mkdir -p $scratch
git -C /repo archive HEAD | tar -x -C $scratch
if ! (cd $scratch && git init -q . >/dev/null 2>&1; git -C $scratch apply --whitespace=nowarn $diff 2>/dev/null); then
  # the patch was written against an older commit: merge it three-way in a scratch worktree of /repo
  rm -rf $scratch
  git -C /repo worktree add -q --detach $scratch HEAD || { echo "PATCH-DOES-NOT-APPLY $name"; exit 3; }
  if ! git -C $scratch apply -3 --whitespace=nowarn $diff >/dev/null 2>&1 || git -C $scratch diff --name-only --diff-filter=U | grep -q .; then
    echo "PATCH-DOES-NOT-APPLY $name (three-way merge conflicts)"; git -C /repo worktree remove --force $scratch; exit 3
  fi
  echo "PATCH-MERGED-3WAY $name"
  cp -r $scratch $scratch.copy && git -C /repo worktree remove --force $scratch && mv $scratch.copy $scratch
fi
rm -rf $scratch/.git
out=/dev/shm/mutant-out.$name.$$; mkdir -p $out
for p in "$@"; do
  t0=$(date +%s)
  VERIF_REPO=$scratch VERIF_EVIDENCE_DIR=$out/evidence VERIF_REPLAY_DIR=$out/replays /verif/check $p $tier > $out/$p.log 2>&1
  rc=$?
  t1=$(date +%s)
  case $rc in
    0) echo "MISSED  $name $p ($((t1-t0))s)";;
    1) echo "CAUGHT  $name $p ($((t1-t0))s): $(grep -m1 -A1 '^VIOLATION' $out/$p.log | tail -1 | cut -c1-260)";;
    *) echo "TROUBLE $name $p rc=$rc ($((t1-t0))s): $(tail -3 $out/$p.log | head -2 | cut -c1-200)";;
  esac
done
mkdir -p /tmp/mutant-logs; cp $out/*.log /tmp/mutant-logs/ 2>/dev/null; for f in $out/*.log; do mv /tmp/mutant-logs/$(basename $f) /tmp/mutant-logs/$name-$(basename $f); done
rm -rf $scratch $out
