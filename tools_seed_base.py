#!/usr/bin/env python3
"""Record, in each seeded/<id>/meta.json, the newest /repo commit the stored patch.diff applies to
(base_commit) and whether it still applies to the current HEAD (applies_to_head)."""
import glob, json, os, subprocess, sys, tempfile
REPO = "/repo"
commits = subprocess.check_output(["git", "-C", REPO, "log", "--format=%h"], text=True).split()
wt = tempfile.mkdtemp(prefix="seedbase.", dir="/tmp")
subprocess.check_call(["git", "-C", REPO, "worktree", "add", "-q", "--detach", wt, "HEAD"])
try:
    todo = {d: None for d in sorted(glob.glob("/verif/seeded/*/patch.diff"))}
    for c in commits[:40]:
        subprocess.check_call(["git", "-C", wt, "checkout", "-q", c])
        for d in todo:
            if todo[d] is None and subprocess.call(["git", "-C", wt, "apply", "--check", "--whitespace=nowarn", d], stderr=subprocess.DEVNULL) == 0:
                todo[d] = c
        if all(todo.values()):
            break
    for d, c in todo.items():
        mp = os.path.join(os.path.dirname(d), "meta.json")
        m = json.load(open(mp))
        m["base_commit"] = c
        m["applies_to_head"] = (c == commits[0])
        json.dump(m, open(mp, "w"), indent=1)
        if c != commits[0]:
            print(os.path.basename(os.path.dirname(d)), "applies to", c, "not to HEAD", commits[0])
finally:
    subprocess.call(["git", "-C", REPO, "worktree", "remove", "--force", wt])
