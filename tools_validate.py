#!/usr/bin/env python3
# validate MANIFEST.json and evidence files against the schemas (uses the tooling venv's jsonschema)
import json, sys, glob
import jsonschema
m = json.load(open('/verif/MANIFEST.json'))
jsonschema.validate(m, json.load(open('/root/.vp/MANIFEST.schema.json')))
es = json.load(open('/root/.vp/EVIDENCE.schema.json'))
ok = True
for c in m['checks']:
    f = c['evidence_file']
    try:
        jsonschema.validate(json.load(open(f)), es)
        print('ok', f)
    except Exception as e:
        ok = False
        print('BAD', f, str(e)[:300])
print('manifest ok')
sys.exit(0 if ok else 1)
