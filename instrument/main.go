// Command instrument rewrites a scratch copy of itchio/wharf so that a simulator can
// decide goroutine interleavings, select choices and map iteration order.
//
// It never touches /repo: the driver copies the working tree first and runs this on the copy.
//
//   - simhook.Yield(site) before every statement that sends, receives or selects on a channel,
//     at the top of every `for range <chan>` body, as first statement of every function literal
//     started with `go`, and right after every `go` statement;
//   - simhook.Note(site, i) as first statement of every select clause (logs the chosen case);
//   - blocking selects with >= 2 communication clauses are wrapped so that the simulator can pick
//     which ready clause wins (non-blocking probes in a chosen rotation, then the original select);
//   - `for k, v := range m` over a map with an ordered key type iterates simhook.Keys(site, m)
//     (sorted, then permuted by the simulator).
//
// With no hook attached every inserted call is a nil check and the code behaves as before
// (map iteration becomes sorted order, which is one of the legal orders).
package main

import (
	"bytes"
	"fmt"
	"go/ast"
	"go/format"
	"go/parser"
	"go/token"
	"go/types"
	"os"
	"path/filepath"
	"sort"
	"strings"

	"golang.org/x/tools/go/packages"
)

const hookPkgPath = "github.com/itchio/wharf/simhook"

const hookSrc = `// Package simhook is added to scratch copies of wharf by /verif/instrument. It is not part of wharf.
package simhook

import (
	"cmp"
	"sort"
)

// Hook is called at every inserted yield point.
var Hook func(site string)

// NoteHook is called when a select clause has been chosen.
var NoteHook func(site string, v int)

// PickHook returns the index of the select clause to probe first, or n for "no preference".
var PickHook func(site string, n int) int

// PermHook returns a permutation of 0..n-1 used to order map iteration.
var PermHook func(site string, n int) []int

func Yield(site string) {
	if h := Hook; h != nil {
		h(site)
	}
}

func Note(site string, v int) {
	if h := NoteHook; h != nil {
		h(site, v)
	}
}

func Pick(site string, n int) int {
	if h := PickHook; h != nil {
		k := h(site, n)
		if k >= 0 && k <= n {
			return k
		}
	}
	return n
}

func Keys[K cmp.Ordered, V any](site string, m map[K]V) []K {
	keys := make([]K, 0, len(m))
	for k := range m {
		keys = append(keys, k)
	}
	sort.Slice(keys, func(i, j int) bool { return cmp.Less(keys[i], keys[j]) })
	if h := PermHook; h != nil && len(keys) > 1 {
		p := h(site, len(keys))
		if len(p) == len(keys) {
			out := make([]K, len(keys))
			seen := make([]bool, len(keys))
			ok := true
			for i, j := range p {
				if j < 0 || j >= len(keys) || seen[j] {
					ok = false
					break
				}
				seen[j] = true
				out[i] = keys[j]
			}
			if ok {
				return out
			}
		}
	}
	return keys
}
`

type stats struct {
	yields, notes, selects, mapRanges, goStmts, files int
	sites                                               []string
}

var st stats

func main() {
	if len(os.Args) < 2 {
		fmt.Fprintln(os.Stderr, "usage: instrument <wharf-copy-dir>")
		os.Exit(2)
	}
	dir, err := filepath.Abs(os.Args[1])
	if err != nil {
		fatal(err)
	}
	if err := os.MkdirAll(filepath.Join(dir, "simhook"), 0o755); err != nil {
		fatal(err)
	}
	if err := os.WriteFile(filepath.Join(dir, "simhook", "simhook.go"), []byte(hookSrc), 0o644); err != nil {
		fatal(err)
	}

	fset := token.NewFileSet()
	cfg := &packages.Config{
		Mode: packages.NeedName | packages.NeedFiles | packages.NeedSyntax | packages.NeedTypes |
			packages.NeedTypesInfo | packages.NeedImports,
		Dir:  dir,
		Fset: fset,
		Env:  os.Environ(),
		ParseFile: func(fset *token.FileSet, filename string, src []byte) (*ast.File, error) {
			return parser.ParseFile(fset, filename, src, parser.SkipObjectResolution)
		},
	}
	pkgs, err := packages.Load(cfg, "./...")
	typed := err == nil
	if err != nil {
		fmt.Fprintf(os.Stderr, "instrument: packages.Load failed (%v); falling back to syntactic mode\n", err)
	}
	done := map[string]bool{}
	if typed {
		for _, p := range pkgs {
			if len(p.Errors) > 0 {
				fmt.Fprintf(os.Stderr, "instrument: package %s has errors (%v); syntactic mode for it\n", p.PkgPath, p.Errors[0])
				continue
			}
			if skipPkg(p.PkgPath) {
				continue
			}
			for _, f := range p.Syntax {
				filename := fset.Position(f.Package).Filename
				if skipFile(filename) {
					continue
				}
				done[filename] = true
				in := &instr{info: p.TypesInfo, pkg: p.Name, fsFile: isFSFile(filename)}
				if in.file(f) {
					writeFile(fset, filename, f)
				}
			}
		}
	}
	// syntactic fallback for anything not handled above
	filepath.Walk(dir, func(path string, fi os.FileInfo, err error) error {
		if err != nil {
			return nil
		}
		if fi.IsDir() {
			if fi.Name() == ".git" || fi.Name() == "simhook" || fi.Name() == "wtest" || fi.Name() == "testdata" {
				return filepath.SkipDir
			}
			return nil
		}
		if !strings.HasSuffix(path, ".go") || skipFile(path) || done[path] {
			return nil
		}
		f, perr := parser.ParseFile(fset, path, nil, parser.SkipObjectResolution)
		if perr != nil {
			return nil // the compiler will report it
		}
		in := &instr{info: nil, pkg: f.Name.Name, fsFile: isFSFile(path)}
		if in.file(f) {
			fmt.Fprintf(os.Stderr, "instrument: %s handled syntactically (no map-order / range-chan rewrite)\n", path)
			writeFile(fset, path, f)
		}
		return nil
	})

	sort.Strings(st.sites)
	fmt.Printf("instrumented files=%d yields=%d notes=%d selects_controlled=%d map_ranges=%d go_stmts=%d typed=%v\n",
		st.files, st.yields, st.notes, st.selects, st.mapRanges, st.goStmts, typed)
	os.WriteFile(filepath.Join(dir, "simhook", "SITES.txt"), []byte(strings.Join(st.sites, "\n")+"\n"), 0o644)
}

func fatal(err error) {
	fmt.Fprintln(os.Stderr, "instrument:", err)
	os.Exit(2)
}

func isFSFile(filename string) bool {
	for _, suf := range fsYieldFiles {
		if strings.HasSuffix(filepath.ToSlash(filename), "/"+suf) {
			return true
		}
	}
	return false
}

func skipPkg(path string) bool {
	return strings.HasSuffix(path, "/simhook") || strings.HasSuffix(path, "/wtest")
}

func skipFile(name string) bool {
	return strings.HasSuffix(name, "_test.go") || strings.HasSuffix(name, ".pb.go")
}

func writeFile(fset *token.FileSet, filename string, f *ast.File) {
	orig, _ := os.ReadFile(filename)
	addImport(f)
	var buf bytes.Buffer
	// keep build constraints (comments are otherwise dropped)
	for _, line := range strings.Split(string(orig), "\n") {
		t := strings.TrimSpace(line)
		if strings.HasPrefix(t, "//go:build") || strings.HasPrefix(t, "// +build") {
			buf.WriteString(line + "\n")
			continue
		}
		if strings.HasPrefix(t, "package ") {
			break
		}
	}
	if buf.Len() > 0 {
		buf.WriteString("\n")
	}
	if err := format.Node(&buf, fset, f); err != nil {
		fatal(fmt.Errorf("%s: %v", filename, err))
	}
	if err := os.WriteFile(filename, buf.Bytes(), 0o644); err != nil {
		fatal(err)
	}
	st.files++
}

func addImport(f *ast.File) {
	spec := &ast.ImportSpec{Path: &ast.BasicLit{Kind: token.STRING, Value: `"` + hookPkgPath + `"`}}
	decl := &ast.GenDecl{Tok: token.IMPORT, Specs: []ast.Spec{spec}}
	f.Decls = append([]ast.Decl{decl}, f.Decls...)
	f.Imports = append(f.Imports, spec)
}

type instr struct {
	info    *types.Info
	pkg     string
	fn      string
	counter int
	changed bool
	tmp     int
	fsFile  bool // yields before filesystem calls are enabled for this file
	noFS    int  // > 0 while inside a function body that takes a mutex (never park under a lock)
}

// files in which goroutines race on the directory tree itself (validator vs healer, zip workers):
// there a yield is also inserted before statements that call into the filesystem
var fsYieldFiles = []string{"pwr/archive_healer.go", "pwr/validator.go", "archiver/zip.go", "archiver/archiver.go"}

var fsCalls = map[string]bool{"Lstat": true, "Stat": true, "Remove": true, "RemoveAll": true, "Mkdir": true, "MkdirAll": true,
	"Symlink": true, "Readlink": true, "OpenFile": true, "Open": true, "Create": true, "WriteFile": true, "ReadFile": true,
	"Rename": true, "Chmod": true, "Truncate": true}

var fileMethods = map[string]bool{"WriteAt": true, "Truncate": true, "Sync": true}

func takesLock(b *ast.BlockStmt) bool {
	found := false
	ast.Inspect(b, func(x ast.Node) bool {
		if _, ok := x.(*ast.FuncLit); ok {
			return false
		}
		if c, ok := x.(*ast.CallExpr); ok {
			if sel, ok := c.Fun.(*ast.SelectorExpr); ok && (sel.Sel.Name == "Lock" || sel.Sel.Name == "RLock") {
				found = true
			}
		}
		return !found
	})
	return found
}

// callsFS reports whether the expressions of n (excluding nested blocks and function literals)
// call os.X / screw.X for a filesystem operation.
func (in *instr) callsFS(n ast.Node) bool {
	if n == nil || !in.fsFile || in.noFS > 0 {
		return false
	}
	found := false
	ast.Inspect(n, func(x ast.Node) bool {
		if found {
			return false
		}
		switch v := x.(type) {
		case *ast.FuncLit, *ast.BlockStmt:
			return false
		case *ast.CallExpr:
			if sel, ok := v.Fun.(*ast.SelectorExpr); ok {
				if id, ok := sel.X.(*ast.Ident); ok && (id.Name == "os" || id.Name == "screw") && fsCalls[sel.Sel.Name] {
					found = true
					return false
				}
				// methods that only files have (a file kept open and written in place)
				if fileMethods[sel.Sel.Name] {
					found = true
					return false
				}
			}
		}
		return true
	})
	return found
}

func (in *instr) site() string {
	in.counter++
	s := fmt.Sprintf("%s.%s#%d", in.pkg, in.fn, in.counter)
	st.sites = append(st.sites, s)
	return s
}

func (in *instr) file(f *ast.File) bool {
	for _, d := range f.Decls {
		fd, ok := d.(*ast.FuncDecl)
		if !ok || fd.Body == nil {
			continue
		}
		in.fn = fd.Name.Name
		if fd.Recv != nil && len(fd.Recv.List) == 1 {
			in.fn = recvName(fd.Recv.List[0].Type) + "." + fd.Name.Name
		}
		in.counter = 0
		in.funcBody(fd.Body)
	}
	return in.changed
}

// funcBody instruments the body of a function or function literal.
func (in *instr) funcBody(b *ast.BlockStmt) {
	if b == nil {
		return
	}
	in.block(b)
}

func recvName(e ast.Expr) string {
	switch t := e.(type) {
	case *ast.StarExpr:
		return recvName(t.X)
	case *ast.Ident:
		return t.Name
	case *ast.IndexExpr:
		return recvName(t.X)
	}
	return "?"
}

func call(fn string, args ...ast.Expr) *ast.CallExpr {
	return &ast.CallExpr{
		Fun:  &ast.SelectorExpr{X: ast.NewIdent("simhook"), Sel: ast.NewIdent(fn)},
		Args: args,
	}
}

func strLit(s string) ast.Expr { return &ast.BasicLit{Kind: token.STRING, Value: fmt.Sprintf("%q", s)} }
func intLit(i int) ast.Expr    { return &ast.BasicLit{Kind: token.INT, Value: fmt.Sprint(i)} }

func (in *instr) yield() ast.Stmt {
	in.changed = true
	st.yields++
	return &ast.ExprStmt{X: call("Yield", strLit(in.site()))}
}

// funcLits processes the bodies of function literals that appear in the expressions of a
// statement (not inside nested blocks, which are handled by block()).
func (in *instr) funcLits(n ast.Node) {
	if n == nil {
		return
	}
	ast.Inspect(n, func(x ast.Node) bool {
		switch v := x.(type) {
		case *ast.FuncLit:
			in.funcBody(v.Body)
			return false
		case *ast.BlockStmt:
			// nested blocks reached through statements are processed elsewhere
			return false
		}
		return true
	})
}

// communicates reports whether the expressions of n (excluding nested blocks and function
// literals) contain a channel receive.
func communicates(n ast.Node) bool {
	if n == nil {
		return false
	}
	found := false
	ast.Inspect(n, func(x ast.Node) bool {
		if found {
			return false
		}
		switch v := x.(type) {
		case *ast.FuncLit, *ast.BlockStmt:
			return false
		case *ast.UnaryExpr:
			if v.Op == token.ARROW {
				found = true
				return false
			}
		}
		return true
	})
	return found
}

func (in *instr) block(b *ast.BlockStmt) {
	if b == nil {
		return
	}
	b.List = in.stmts(b.List)
}

// lockCall reports whether s is a statement of the form x.<name>() for one of the given names.
func lockCall(s ast.Stmt, names ...string) bool {
	es, ok := s.(*ast.ExprStmt)
	if !ok {
		return false
	}
	c, ok := es.X.(*ast.CallExpr)
	if !ok {
		return false
	}
	sel, ok := c.Fun.(*ast.SelectorExpr)
	if !ok {
		return false
	}
	for _, n := range names {
		if sel.Sel.Name == n {
			return true
		}
	}
	return false
}

func (in *instr) stmts(list []ast.Stmt) []ast.Stmt {
	var out []ast.Stmt
	// never park while a mutex is held: between x.Lock() and x.Unlock() in the same statement list
	// (or until the end of the list when the unlock is deferred) no filesystem yields are inserted
	locked := 0
	for _, s := range list {
		if lockCall(s, "Unlock", "RUnlock") && locked > 0 {
			locked--
			in.noFS--
		}
		pre, repl, post := in.stmt(s)
		out = append(out, pre...)
		out = append(out, repl)
		out = append(out, post...)
		if lockCall(s, "Lock", "RLock") {
			locked++
			in.noFS++
		}
	}
	for ; locked > 0; locked-- {
		in.noFS--
	}
	return out
}

// stmt instruments one statement; it returns statements to insert before and after it and the
// (possibly replaced) statement itself.
func (in *instr) stmt(s ast.Stmt) (pre []ast.Stmt, repl ast.Stmt, post []ast.Stmt) {
	repl = s
	switch v := s.(type) {
	case *ast.LabeledStmt:
		p, r, q := in.stmt(v.Stmt)
		v.Stmt = r
		return p, v, q
	case *ast.BlockStmt:
		in.block(v)
	case *ast.IfStmt:
		in.funcLits(v.Init)
		in.funcLits(v.Cond)
		in.block(v.Body)
		if v.Else != nil {
			_, r, _ := in.stmt(v.Else)
			v.Else = r
		}
		if communicates(v.Init) || communicates(v.Cond) || in.callsFS(v.Init) || in.callsFS(v.Cond) {
			pre = append(pre, in.yield())
		}
	case *ast.ForStmt:
		in.funcLits(v.Init)
		in.funcLits(v.Cond)
		in.funcLits(v.Post)
		in.block(v.Body)
		if communicates(v.Init) || communicates(v.Cond) || communicates(v.Post) {
			pre = append(pre, in.yield())
			v.Body.List = append([]ast.Stmt{in.yield()}, v.Body.List...)
		}
	case *ast.RangeStmt:
		in.funcLits(v.X)
		in.block(v.Body)
		if in.isChan(v.X) {
			pre = append(pre, in.yield())
			v.Body.List = append([]ast.Stmt{in.yield()}, v.Body.List...)
		} else if in.isOrderedMap(v.X) {
			if r := in.rewriteMapRange(v); r != nil {
				repl = r
			}
		}
	case *ast.SwitchStmt:
		in.funcLits(v.Init)
		in.funcLits(v.Tag)
		in.caseClauses(v.Body)
		if communicates(v.Init) || communicates(v.Tag) {
			pre = append(pre, in.yield())
		}
	case *ast.TypeSwitchStmt:
		in.caseClauses(v.Body)
	case *ast.SelectStmt:
		pre = append(pre, in.yield())
		repl = in.selectStmt(v)
	case *ast.GoStmt:
		st.goStmts++
		if fl, ok := v.Call.Fun.(*ast.FuncLit); ok {
			in.funcBody(fl.Body)
			fl.Body.List = append([]ast.Stmt{in.yield()}, fl.Body.List...)
		}
		for _, a := range v.Call.Args {
			in.funcLits(a)
		}
		post = append(post, in.yield())
	case *ast.SendStmt:
		in.funcLits(v.Value)
		pre = append(pre, in.yield())
	case *ast.DeferStmt:
		in.funcLits(v.Call)
	default:
		// simple statements: expression, assignment, declaration, return, inc/dec ...
		in.funcLits(s)
		if communicates(s) || in.callsFS(s) {
			pre = append(pre, in.yield())
		}
	}
	return
}

func (in *instr) caseClauses(b *ast.BlockStmt) {
	for _, c := range b.List {
		if cc, ok := c.(*ast.CaseClause); ok {
			for _, e := range cc.List {
				in.funcLits(e)
			}
			cc.Body = in.stmts(cc.Body)
		}
	}
}

func (in *instr) isChan(e ast.Expr) bool {
	if in.info == nil {
		return false
	}
	t := in.info.TypeOf(e)
	if t == nil {
		return false
	}
	_, ok := t.Underlying().(*types.Chan)
	return ok
}

func (in *instr) isOrderedMap(e ast.Expr) bool {
	if in.info == nil {
		return false
	}
	t := in.info.TypeOf(e)
	if t == nil {
		return false
	}
	m, ok := t.Underlying().(*types.Map)
	if !ok {
		return false
	}
	b, ok := m.Key().Underlying().(*types.Basic)
	if !ok {
		return false
	}
	return b.Info()&(types.IsInteger|types.IsFloat|types.IsString) != 0
}

// rewriteMapRange turns `for k, v := range m { body }` into
//
//	for _, k := range simhook.Keys(site, m) { v, simokN := m[k]; if !simokN { continue }; body }
func (in *instr) rewriteMapRange(r *ast.RangeStmt) ast.Stmt {
	if r.Tok != token.DEFINE && r.Key != nil {
		return nil // assignment form: leave alone
	}
	// the ranged expression is evaluated twice below; only allow side-effect-free forms
	switch r.X.(type) {
	case *ast.Ident, *ast.SelectorExpr:
	default:
		return nil
	}
	in.tmp++
	keyName := fmt.Sprintf("simkey%d", in.tmp)
	hasKey := false
	if id, ok := r.Key.(*ast.Ident); ok && id.Name != "_" {
		keyName = id.Name
		hasKey = true
	}
	_ = hasKey
	var body []ast.Stmt
	if id, ok := r.Value.(*ast.Ident); ok && id.Name != "_" {
		okName := fmt.Sprintf("simok%d", in.tmp)
		body = append(body,
			&ast.AssignStmt{
				Lhs: []ast.Expr{ast.NewIdent(id.Name), ast.NewIdent(okName)},
				Tok: token.DEFINE,
				Rhs: []ast.Expr{&ast.IndexExpr{X: r.X, Index: ast.NewIdent(keyName)}},
			},
			&ast.IfStmt{
				Cond: &ast.UnaryExpr{Op: token.NOT, X: ast.NewIdent(okName)},
				Body: &ast.BlockStmt{List: []ast.Stmt{&ast.BranchStmt{Tok: token.CONTINUE}}},
			},
		)
	} else if r.Value != nil {
		if _, isBlank := r.Value.(*ast.Ident); !isBlank {
			return nil
		}
	}
	if r.Key == nil && r.Value == nil {
		// `for range m`
	}
	body = append(body, r.Body.List...)
	in.changed = true
	st.mapRanges++
	return &ast.RangeStmt{
		Key:   ast.NewIdent("_"),
		Value: ast.NewIdent(keyName),
		Tok:   token.DEFINE,
		X:     call("Keys", strLit(in.site()), r.X),
		Body:  &ast.BlockStmt{List: body},
	}
}

func hasLabel(n ast.Node) bool {
	found := false
	ast.Inspect(n, func(x ast.Node) bool {
		if _, ok := x.(*ast.LabeledStmt); ok {
			found = true
		}
		return !found
	})
	return found
}

// selectStmt adds notes to every clause and, for blocking selects with >= 2 communication
// clauses, wraps the select so the simulator chooses which ready clause is taken.
func (in *instr) selectStmt(s *ast.SelectStmt) ast.Stmt {
	site := in.site()
	var comm []*ast.CommClause
	hasDefault := false
	for i, c := range s.Body.List {
		cc := c.(*ast.CommClause)
		in.funcLits(cc.Comm)
		cc.Body = in.stmts(cc.Body)
		st.notes++
		in.changed = true
		cc.Body = append([]ast.Stmt{&ast.ExprStmt{X: call("Note", strLit(site), intLit(i))}}, cc.Body...)
		if cc.Comm == nil {
			hasDefault = true
		} else {
			comm = append(comm, cc)
		}
	}
	n := len(comm)
	if hasDefault || n < 2 || n > 4 || hasLabel(s) {
		return s
	}
	st.selects++
	// chain(k): probe clauses k, k+1, ... without blocking, then fall back to the original select
	chain := func(k int) ast.Stmt {
		var inner ast.Stmt = s
		for j := n - 1; j >= 0; j-- {
			cl := comm[(k+j)%n]
			inner = &ast.SelectStmt{Body: &ast.BlockStmt{List: []ast.Stmt{
				cl,
				&ast.CommClause{Comm: nil, Body: []ast.Stmt{inner}},
			}}}
		}
		return inner
	}
	sw := &ast.SwitchStmt{
		Tag:  call("Pick", strLit(site), intLit(n)),
		Body: &ast.BlockStmt{},
	}
	for k := 0; k < n; k++ {
		sw.Body.List = append(sw.Body.List, &ast.CaseClause{
			List: []ast.Expr{intLit(k)},
			Body: []ast.Stmt{chain(k)},
		})
	}
	sw.Body.List = append(sw.Body.List, &ast.CaseClause{List: nil, Body: []ast.Stmt{s}})
	return sw
}
