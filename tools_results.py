#!/usr/bin/env python3
"""Regenerates /verif/seeded/RESULTS.md from seeded/*/meta.json."""
import json, glob, os
rows = []
for f in sorted(glob.glob('/verif/seeded/*/meta.json')):
    m = json.load(open(f))
    rows.append(m)
out = ["# Which checks catch which deliberately broken versions of wharf", "",
       "Each entry is a change to itchio/wharf that compiles and passes the pinned test suite but breaks a property.",
       "`wave 1/2`: written by independent sub-agents that saw only the property text and their own scratch worktree;",
       "`revert-*`: the unrepaired behaviour of one `fix:` commit. Every change was confirmed in a scratch worktree",
       "(suite passes with it, demonstration fails with it and passes without it) before the checks were run against a",
       "scratch copy of /repo with the change applied (`tools_mutant.sh`, VERIF_REPO override; /repo itself untouched).", "",
       "| id | breaks | caught by (tier, time) | missed by | strengthening done |", "|---|---|---|---|---|"]
for m in rows:
    caught = [l for l in m.get('checks_run', []) + m.get('checks_after_strengthening', []) if l.startswith('CAUGHT')]
    missed = [l for l in m.get('checks_run', []) if l.startswith('MISSED')]
    def short(l):
        p = l.split()
        return "%s %s" % (p[2], p[3].rstrip(':')) if len(p) > 3 else l
    out.append("| %s | %s | %s | %s | %s |" % (m['id'], m['breaks_property'],
               "; ".join(sorted(set(short(l) + (" [" + m.get('tier_note', 'quick') + "]") for l in caught))) or "—",
               "; ".join(short(l) for l in missed) or "—",
               (m.get('strengthening', '') or '—').replace('|', '/')[:400]))
open('/verif/seeded/RESULTS.md', 'w').write("\n".join(out) + "\n")
print(len(rows), "entries")
