#!/usr/bin/env python3
"""Regenerates /verif/seeded/RESULTS.md from seeded/*/meta.json."""
import json, glob, os
rows = []
for f in sorted(glob.glob('/verif/seeded/*/meta.json')):
    m = json.load(open(f))
    rows.append(m)
out = ["# Which checks catch which deliberately broken versions of wharf", "",
       "Each entry is a change to itchio/wharf that compiles and passes the pinned test suite but breaks a property.",
       "ids ending in a/b/c/d/e/g/h/j + A/B: waves 1-5, 7, 8 and 10 (wave 6 were readers of the unchanged code, they made no change), written by independent sub-agents that saw only the property text and their own scratch worktree;",
       "`revert-*`: the unrepaired behaviour of one `fix:` commit. Every change was confirmed in a scratch worktree",
       "(suite passes with it, demonstration fails with it and passes without it) before the checks were run against a",
       "scratch copy of /repo with the change applied (`tools_mutant.sh`, VERIF_REPO override; /repo itself untouched).", "",
       "| id | breaks | caught by (tier, time) | missed by | strengthening done |", "|---|---|---|---|---|"]
for m in rows:
    caught = [l for l in m.get('checks_run', []) + m.get('checks_after_strengthening', []) if l.startswith('CAUGHT')]
    missed = [l for l in m.get('checks_run', []) if l.startswith('MISSED')]
    def short(l):
        p = l.split()
        return "%s %s" % (p[2], p[3].rstrip(':')) if len(p) > 3 else l
    out.append("| %s | %s | %s | %s | %s |" % (m['id'], m['breaks_property'],
               "; ".join(sorted(set(short(l) + (" [" + m.get('tier_note', 'quick') + "]") for l in caught))) or "—",
               "; ".join(short(l) for l in missed) or "—",
               (m.get('strengthening', '') or '—').replace('|', '/')[:400]))
n_agent = sum(1 for m in rows if not m['id'].startswith('revert'))
n_neutral = sum(1 for m in rows if m.get('neutralised_by_fix'))
n_caught = sum(1 for m in rows if not m.get('neutralised_by_fix') and any(l.startswith('CAUGHT') for l in m.get('checks_run', []) + m.get('checks_after_strengthening', [])))
n_first = sum(1 for m in rows if not m.get('neutralised_by_fix') and any(l.startswith('CAUGHT') for l in m.get('checks_run', [])))
out += ["", "Totals: %d entries (%d by sub-agents, %d reverts); %d neutralised by a later fix (their own demonstration passes on HEAD + change) and not counted; of the other %d, %d were caught by the checks as they stood when the change arrived and %d after strengthening; not caught: %s." % (
    len(rows), n_agent, len(rows) - n_agent, n_neutral, len(rows) - n_neutral, n_first, n_caught,
    ", ".join(m['id'] for m in rows if not m.get('neutralised_by_fix') and not any(l.startswith('CAUGHT') for l in m.get('checks_run', []) + m.get('checks_after_strengthening', []))) or "none")]
open('/verif/seeded/RESULTS.md', 'w').write("\n".join(out) + "\n")
print(len(rows), "entries")
