#!/usr/bin/env python3
"""Regenerates /verif/MANIFEST.json from checks_config.py (claimed checks) and properties.jsonl."""
import json, os, sys
sys.path.insert(0, os.path.dirname(os.path.abspath(__file__)))
from checks_config import CHECKS, NOT_APPLICABLE

props = [json.loads(l) for l in open('/verif/properties.jsonl')]
m = {
 "version": 1,
 "setup_cmd": "cd /verif && ./check build",
 "hooks": {
  "guard": "verifsim (build-time instrumentation of a scratch copy; nothing is committed to /repo)",
  "enable": "./check build copies /repo's working tree to /verif/.build/<treehash>/wharf and runs /verif/instrument over the copy (yield before every channel operation / after every go statement, simulator-controlled select choice, simulator-ordered map iteration, package simhook); the harness is compiled against that copy with go1.26.8 (GOTOOLCHAIN=local). Every check rebuilds iff the tree hash changed.",
  "baseline_off_cmd": "cd /repo && GOFLAGS=-mod=mod go test -vet=off -count=1 ./...",
  "source_commits": [],
  "add_only": True,
 },
 "engines": [{
  "name": "wharfsim", "path": "/verif/harness",
  "serves_properties": sorted(CHECKS.keys()),
  "kind_free_text": "deterministic simulation with fault injection: real goroutines inside a testing/synctest bubble released one at a time by a seeded scheduler; simulated pools, sources, writers, save consumers and disk (tmpfs tree model); stored-data faults, truncation, crash/restart; pgregory.net/rapid is the single choice source (shrinking, .fail replay files)",
 }],
 "checks": [],
 "notes": "DESIGN.md explains the simulator and, per property, the workload, fault space, oracle and what the simulator contributes. findings/known_findings.json lists genuine defects (fixed by fix: commits in /repo, or known).",
 "not_applicable": [],
}
for p in props:
    pid = p['id']
    if pid in CHECKS:
        c = CHECKS[pid]
        m["checks"].append({
            "property_id": pid,
            "quick_cmd": "./check %s quick" % pid,
            "thorough_cmd": "./check %s thorough" % pid,
            "evidence_file": "/verif/evidence/%s.json" % pid,
            "replay_cmd_template": "./check %s --replay {path}" % pid,
            "engine": "wharfsim",
            "level_claimed": {"category": c["level"],
                              "text": c.get("text", "seeded exploration under the simulator; a clean batch is evidence, not proof"),
                              "design_ref": "DESIGN.md §3 " + pid},
            "level_note": c.get("note", "trusted base: Go toolchain 1.26.8 and testing/synctest, the instrumenter (rewrites preserve behaviour: wharf's own tests pass on the instrumented copy), lake/savior/kompress dependencies, tmpfs, the harness's reference models"),
            "technique": c.get("technique", "deterministic simulation with fault injection (seeded scheduler + simulated I/O seams, rapid-shrunk replay files)"),
        })
    else:
        m["not_applicable"].append({"property_id": pid, "reason": NOT_APPLICABLE.get(pid, "check not built yet in this session; not claimed")})
json.dump(m, open('/verif/MANIFEST.json', 'w'), indent=1)
print("claimed:", [c["property_id"] for c in m["checks"]])
