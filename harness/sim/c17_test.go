package sim

import (
	"bytes"
	"encoding/gob"
	"fmt"
	"path/filepath"
	"sort"
	"sync"
	"testing"

	"github.com/itchio/headway/state"
	"github.com/itchio/wharf/pwr/bowl"
	"github.com/itchio/wharf/pwr/patcher"
	"pgregory.net/rapid"
)

// recBowl records what the patcher asks of the bowl.
type recBowl struct {
	bowl.Bowl
	mu       sync.Mutex
	Writers  []int64
	Transpos []bowl.Transposition
}

func (b *recBowl) GetWriter(i int64) (bowl.EntryWriter, error) {
	b.mu.Lock()
	b.Writers = append(b.Writers, i)
	b.mu.Unlock()
	return b.Bowl.GetWriter(i)
}

func (b *recBowl) Transpose(t bowl.Transposition) error {
	b.mu.Lock()
	b.Transpos = append(b.Transpos, t)
	b.mu.Unlock()
	return b.Bowl.Transpose(t)
}

// genPatch produces a plain or optimized patch for the pair (directories must exist).
func genPatch(rt *rapid.T, oldDir, newDir string, allowOptimized bool) (patch []byte, desc string, fail string) {
	comp := GenCompression(rt)
	seams := DiffSeams{}
	if rapid.IntRange(0, 3).Draw(rt, "ziplikecontainers") == 0 {
		seams.ZipLikeContainers = rapid.Uint64().Draw(rt, "ziplikeseed") | 1
		Ev.Probe("containers_list_directories_like_a_zip_walk")
	}
	dr := Diff(oldDir, newDir, comp, seams)
	if dr.Err != nil || dr.Panic != "" {
		return nil, "", fmt.Sprintf("WritePatch failed: %v %s", dr.Err, dr.Panic)
	}
	desc = "plain/" + CompString(comp)
	patch = dr.Patch
	if allowOptimized && rapid.Bool().Draw(rt, "optimized") {
		k := GenKnobs(rt)
		or := Optimize(patch, oldDir, newDir, k, nil, nil)
		if or.Err != nil || or.Panic != "" {
			return nil, "", fmt.Sprintf("Optimize failed (knobs %+v): %v %s", k, or.Err, or.Panic)
		}
		patch = or.Patch
		desc = fmt.Sprintf("optimized(p=%d,force=%v,limit=%d,mappings=%d)/from %s", k.Partitions, k.ForceMapAll, k.SizeLimit, or.Mappings, CompString(comp))
	}
	return patch, desc, ""
}

// TestC17: partial application by whitelist produces exactly the selected files.
func TestC17(t *testing.T) {
	Ev.Rule = "generated build pairs x {plain, optimized} patches x compression x generated whitelist subsets (incl. empty and full); non-trivial = whitelist is a proper non-empty subset; distinct by (pair, patch kind, subset)"
	Ev.Component("patcher (skipFile / processRsync / processBsdiff), fresh bowl, rediff", "real")
	Ev.Component("bowl (recording wrapper), old-build pool (recording wrapper), patch source", "simulated / recorded")
	Prop(t, "C17", func(rt *rapid.T) {
		pair := GenPair(rt, GenOpts{Links: true, EmptyDirs: true, LowEntropy: true, MaxMid: 200 * KiB, KindChange: rapid.IntRange(0, 2).Draw(rt, "kindchanges") == 0})
		if rapid.IntRange(0, 9).Draw(rt, "manyfiles") == 0 {
			// a new build with many more files than the old one (indices far beyond the old build's)
			n := rapid.IntRange(60, 200).Draw(rt, "nmanyfiles")
			for i := 0; i < n; i++ {
				pair.New[fmt.Sprintf("many/m%03d", i)] = &Entry{Kind: KFile, Data: Bytes(uint64(i)+3, []int{0, 5, 200, 70000}[i%4/1%4])}
				pair.Meta[fmt.Sprintf("many/m%03d", i)] = FileMeta{Op: "add"}
			}
			pair.New.Normalize()
			Ev.Probe("new_build_with_many_more_files_than_old")
		}
		family := rapid.IntRange(0, 2).Draw(rt, "family") == 0 && canPlace(pair.Old, "fam/x.bin") && canPlace(pair.New, "fam/a.bin")
		if family {
			// two old files of one size; three new files, the first derived from one of them, the other
			// two from the other one (an optimized patch then has bsdiff series against X, Y, Y)
			sz := rapid.SampledFrom([]int{70000, 2 * BlockSize, 150001, 300 * KiB}).Draw(rt, "famsize")
			fs := rapid.Uint64().Draw(rt, "famseed")
			x, y := Bytes(fs, sz), Bytes(fs+1, sz)
			edit := func(b []byte, seed uint64) []byte {
				out := append([]byte{}, b...)
				r := NewRng(seed)
				for k := 0; k < 4; k++ {
					o := r.Intn(len(out) - 40)
					copy(out[o:o+30], Bytes(seed+uint64(k), 30))
				}
				return out
			}
			pair.Old["fam/x.bin"], pair.Old["fam/y.bin"] = &Entry{Kind: KFile, Data: x}, &Entry{Kind: KFile, Data: y}
			pair.New["fam/a.bin"] = &Entry{Kind: KFile, Data: edit(x, fs+10)}
			pair.New["fam/b.bin"] = &Entry{Kind: KFile, Data: edit(y, fs+20)}
			pair.New["fam/c.bin"] = &Entry{Kind: KFile, Data: edit(y, fs+30)}
			for _, p := range []string{"fam/a.bin", "fam/b.bin", "fam/c.bin"} {
				pair.Meta[p] = FileMeta{From: map[string]string{"fam/a.bin": "fam/x.bin"}[p] + map[string]string{"fam/b.bin": "fam/y.bin", "fam/c.bin": "fam/y.bin"}[p], Edits: 4, Introduced: 120, Op: "family"}
			}
			pair.Old.Normalize()
			pair.New.Normalize()
			Ev.Probe("new_files_derived_from_two_old_files_of_one_size")
		}
		modeShape := rapid.IntRange(0, 7).Draw(rt, "modeshape") == 0 && canPlace(pair.Old, "km/t.bin") && canPlace(pair.New, "km/t.bin")
		if modeShape {
			// an old symlink that becomes a regular file with other permissions than the file it used
			// to point to; only the latter is selected
			tb := Bytes(rapid.Uint64().Draw(rt, "kmseed"), 3000)
			texec := rapid.Bool().Draw(rt, "kmexec")
			pair.Old["km/t.bin"] = &Entry{Kind: KFile, Data: tb, Exec: texec}
			pair.Old["km/z-link"] = &Entry{Kind: KLink, Dest: "t.bin"}
			pair.New["km/t.bin"] = &Entry{Kind: KFile, Data: append(append([]byte{}, tb...), 'x'), Exec: texec}
			pair.New["km/z-link"] = &Entry{Kind: KFile, Data: Bytes(5, 100), Exec: !texec}
			pair.Meta["km/t.bin"] = FileMeta{From: "km/t.bin", Edits: 1, Introduced: 1, Op: "append"}
			pair.Meta["km/z-link"] = FileMeta{Op: "symlink becomes a file"}
			pair.Old.Normalize()
			pair.New.Normalize()
		}
		dir, cleanup := RunDir()
		defer cleanup()
		oldDir, newDir, outDir := filepath.Join(dir, "old"), filepath.Join(dir, "new"), filepath.Join(dir, "out")
		Must(pair.Old.Materialize(oldDir), "materialize old")
		Must(pair.New.Materialize(newDir), "materialize new")
		patch, desc, fail := genPatch(rt, oldDir, newDir, true)
		if fail != "" {
			// producing the patch is C01/C07's subject; a failure here is still a real failure
			Violation(rt, "C17/patch-production", "%s", fail)
			return
		}
		source := Walk(newDir)
		n := len(source.Files)
		wl := map[int64]bool{}
		mode := rapid.IntRange(0, 5).Draw(rt, "wlmode")
		for i := 0; i < n; i++ {
			switch mode {
			case 0: // empty
			case 1:
				wl[int64(i)] = true
			default:
				if rapid.Bool().Draw(rt, "wl") {
					wl[int64(i)] = true
				}
			}
		}
		if modeShape {
			for i, f := range source.Files {
				switch f.Path {
				case "km/t.bin":
					wl[int64(i)] = true
				case "km/z-link":
					delete(wl, int64(i))
				}
			}
		}
		if family && rapid.IntRange(0, 7).Draw(rt, "famskipmiddle") != 0 {
			for i, f := range source.Files {
				switch f.Path {
				case "fam/a.bin", "fam/c.bin":
					wl[int64(i)] = true
				case "fam/b.bin":
					delete(wl, int64(i))
				}
			}
		}
		wlPaths := map[string]bool{}
		for i := range wl {
			wlPaths[source.Files[i].Path] = true
		}
		// the map that is handed over may also say "false" in so many words for some of the others
		passed := map[int64]bool{}
		for i := range wl {
			passed[i] = true
		}
		if rapid.IntRange(0, 2).Draw(rt, "explicitfalse") == 0 {
			for i := 0; i < n; i++ {
				if !wl[int64(i)] && rapid.Bool().Draw(rt, "wlfalse") {
					passed[int64(i)] = false
				}
			}
			Ev.ProbeIf(len(passed) > len(wl), "whitelist_map_with_explicit_false_entries")
		}

		// the application may be stopped at checkpoints and resumed on the same patcher, like the
		// suite's with-saves run: counts and contents must come out the same
		var ssc *stopSC
		if rapid.IntRange(0, 2).Draw(rt, "stopresume") == 0 {
			ssc = &stopSC{Every: rapid.IntRange(1, 4).Draw(rt, "saveevery"), StopsLeft: rapid.IntRange(1, 6).Draw(rt, "stops"), Skip: rapid.IntRange(0, 5).Draw(rt, "skipsaves")}
			if rapid.Bool().Draw(rt, "resumeearlier") {
				ssc.Back = rapid.Uint64().Draw(rt, "earlierwhich") | 1
			}
		}
		rb := &recBowl{}
		current := ""
		var pool *Pool
		var badRead string
		cons := &state.Consumer{OnProgressLabel: func(label string) { current = label }}
		ar := ApplyFresh(patch, oldDir, outDir, ApplyOpts{
			PatchSlice: drawSlicer(rt, "patchslice"),
			Whitelist:  passed,
			Save:       ssc.consumer(),
			OnStop:     ssc.onStop(),
			Consumer:   cons,
			WrapBowl:   func(b bowl.Bowl) bowl.Bowl { rb.Bowl = b; return rb },
			OnPool: func(p *Pool) {
				pool = p
				p.OnRead = func(ev ReadEvent) {
					if !wlPaths[current] && badRead == "" {
						badRead = fmt.Sprintf("old file %d read at offset %d while processing %q, which is not whitelisted", ev.Index, ev.Off, current)
					}
				}
			},
		})
		_ = pool
		if ar.Panic != "" || ar.Err != nil {
			Violation(rt, "C17/apply-failed", "whitelisted apply failed at %s: %v %s (patch %s, whitelist %v)", ar.Stage, ar.Err, ar.Panic, desc, keys(wl))
			return
		}
		if ar.Touched != int64(len(wl)) {
			Violation(rt, "C17/touched-count", "GetTouchedFiles = %d, whitelist has %d (patch %s)", ar.Touched, len(wl), desc)
			return
		}
		asked := map[int64]int{}
		for _, i := range rb.Writers {
			asked[i]++
		}
		for _, tp := range rb.Transpos {
			asked[tp.SourceIndex]++
		}
		for i, c := range asked {
			if !wl[i] {
				Violation(rt, "C17/bowl-asked-outside-whitelist", "bowl was asked to write/copy file %d (%s), not in whitelist %v (patch %s)", i, source.Files[i].Path, keys(wl), desc)
				return
			}
			// a file in progress when the patcher was stopped is asked for again on resume
			if c > 1+ar.Stops {
				Violation(rt, "C17/bowl-asked-twice", "bowl was asked %d times for file %d", c, i)
				return
			}
		}
		for i := range wl {
			if asked[i] == 0 {
				Violation(rt, "C17/whitelisted-not-produced", "whitelisted file %d (%s) was never requested from the bowl (patch %s)", i, source.Files[i].Path, desc)
				return
			}
		}
		if badRead != "" {
			Violation(rt, "C17/read-outside-whitelist", "%s (patch %s)", badRead, desc)
			return
		}
		got := MustSnapshot(outDir).Tree
		for p := range wlPaths {
			e, ok := got[p]
			if !ok || e.Kind != KFile || !bytes.Equal(e.Data, pair.New[p].Data) {
				l := -1
				if ok {
					l = len(e.Data)
				}
				Violation(rt, "C17/wrong-content", "whitelisted file %s differs from the new build (got len %d, want %d) (patch %s)", p, l, len(pair.New[p].Data), desc)
				return
			}
		}
		// the same partial application done in place (overlay bowl over a copy of the old build): the
		// whitelisted files come out as full application makes them, content and executable bit
		if pair.HasKnownInPlaceShape() == false && (rapid.IntRange(0, 3).Draw(rt, "inplacetoo") == 0 || modeShape) {
			inDir, stage := filepath.Join(dir, "inplace"), filepath.Join(dir, "stage")
			Must(pair.Old.Materialize(inDir), "materialize in-place copy")
			ir := ApplyInPlace(patch, inDir, stage, ApplyOpts{Whitelist: passed})
			if ir.Panic != "" || ir.Err != nil {
				Violation(rt, "C17/apply-failed", "whitelisted in-place apply failed at %s: %v %s (patch %s, whitelist %v)", ir.Stage, ir.Err, ir.Panic, desc, keys(wl))
				return
			}
			if ir.Touched != int64(len(wl)) {
				Violation(rt, "C17/touched-count", "in place: GetTouchedFiles = %d, whitelist has %d (patch %s)", ir.Touched, len(wl), desc)
				return
			}
			igot := MustSnapshot(inDir).Tree
			for p := range wlPaths {
				e, ok := igot[p]
				if !ok || e.Kind != KFile || !bytes.Equal(e.Data, pair.New[p].Data) {
					Violation(rt, "C17/wrong-content", "in place: whitelisted file %s differs from the new build (present %v) (patch %s, whitelist %v)", p, ok, desc, keys(wl))
					return
				}
				if e.Exec != pair.New[p].Exec {
					Violation(rt, "C17/wrong-mode", "in place: whitelisted file %s has executable=%v, full application makes it %v (patch %s, whitelist %v)", p, e.Exec, pair.New[p].Exec, desc, keys(wl))
					return
				}
			}
			Ev.Probe("partial_application_in_place")
		}
		Ev.ProbeIf(ar.Stops > 0, "stopped_and_resumed_on_the_same_patcher")
		Ev.Fault("stop_resume_same_patcher", ar.Stops)
		Ev.ProbeIf(len(wl) == 0, "empty_whitelist")
		Ev.ProbeIf(len(wl) == n && n > 0, "full_whitelist")
		Ev.ProbeIf(len(rb.Transpos) > 0, "whole_file_copy_whitelisted")
		h := pair.Hash() ^ fnv64([]byte(desc), []byte(fmt.Sprint(keys(wl))))
		Ev.Eval(h, len(wl) > 0 && len(wl) < n, func() interface{} {
			m := pair.Sample()
			m["patch"], m["whitelist"] = desc, keys(wl)
			return m
		})
	})
}

// stopSC stops the patcher at some of the checkpoints it is offered.
type stopSC struct {
	Every, StopsLeft, Skip int
	Back                   uint64 // != 0: resume from an earlier checkpoint than the one stopped at
	calls                  int
	last                   []byte
	all                    [][]byte
}

func (s *stopSC) ShouldSave() bool {
	s.calls++
	return s.calls%s.Every == 0
}

func (s *stopSC) Save(c *patcher.Checkpoint) (patcher.AfterSaveAction, error) {
	if s.Skip > 0 {
		s.Skip--
		return patcher.AfterSaveContinue, nil
	}
	if s.StopsLeft == 0 {
		return patcher.AfterSaveContinue, nil
	}
	var buf bytes.Buffer
	if err := gob.NewEncoder(&buf).Encode(c); err != nil {
		return patcher.AfterSaveContinue, nil
	}
	s.last = buf.Bytes()
	s.all = append(s.all, s.last)
	s.StopsLeft--
	return patcher.AfterSaveStop, nil
}

func (s *stopSC) consumer() patcher.SaveConsumer {
	if s == nil {
		return nil
	}
	return s
}

func (s *stopSC) onStop() func() *patcher.Checkpoint {
	if s == nil {
		return nil
	}
	return func() *patcher.Checkpoint {
		if s.last == nil {
			return nil
		}
		from := s.last
		if s.Back != 0 && len(s.all) > 1 {
			from = s.all[int(s.Back%uint64(len(s.all)))]
			Ev.Probe("same_patcher_resumed_from_an_earlier_checkpoint")
		}
		c := &patcher.Checkpoint{}
		if gob.NewDecoder(bytes.NewReader(from)).Decode(c) != nil {
			return nil
		}
		s.last = nil
		return c
	}
}

func keys(m map[int64]bool) []int64 {
	var ks []int64
	for k := range m {
		ks = append(ks, k)
	}
	sort.Slice(ks, func(i, j int) bool { return ks[i] < ks[j] })
	return ks
}
