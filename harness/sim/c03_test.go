package sim

import (
	"bytes"
	"encoding/gob"
	"fmt"
	"os"
	"path/filepath"
	"testing"

	"github.com/itchio/lake/pools/fspool"
	"github.com/itchio/wharf/pwr"
	"github.com/itchio/wharf/pwr/bowl"
	"github.com/itchio/wharf/pwr/patcher"
	"pgregory.net/rapid"
)

// savedCk is one checkpoint as a crashed process would have left it: serialized bytes plus the
// disk state at the instant Save() was called.
type savedCk struct {
	Gob  []byte
	Disk *Snap // output dir (fresh) or stage dir (overlay)
	Desc string
}

// scriptSC is the simulated save consumer.
type scriptSC struct {
	Should  func(call int) bool
	StopAt  int // index of the Save call that answers AfterSaveStop (-1: never)
	DiskDir string
	// Late: the checkpoint is kept as handed over and only serialized when the next one arrives
	// (or at the end of the run), like a persister that debounces its writes
	Late    bool
	pending *patcher.Checkpoint
	pendIdx int

	calls  int
	Saves  []savedCk
	EncErr error
}

func (s *scriptSC) ShouldSave() bool {
	s.calls++
	return s.Should(s.calls)
}

// flushLate serializes the checkpoint that was kept back, replacing the placeholder.
func (s *scriptSC) flushLate() {
	if s.pending == nil {
		return
	}
	var buf bytes.Buffer
	if err := gob.NewEncoder(&buf).Encode(s.pending); err != nil {
		if s.EncErr == nil {
			s.EncErr = err
		}
	} else {
		s.Saves[s.pendIdx].Gob = buf.Bytes()
	}
	s.pending = nil
}

func (s *scriptSC) Save(c *patcher.Checkpoint) (patcher.AfterSaveAction, error) {
	s.flushLate()
	var buf bytes.Buffer
	if err := gob.NewEncoder(&buf).Encode(c); err != nil {
		if s.EncErr == nil {
			s.EncErr = err
		}
		return patcher.AfterSaveContinue, nil
	}
	if s.Late {
		defer func() {
			if len(s.Saves) > 0 && !(s.StopAt >= 0 && len(s.Saves)-1 == s.StopAt) {
				s.pending, s.pendIdx = c, len(s.Saves)-1
			}
		}()
	}
	d := fmt.Sprintf("file %d kind %d", c.FileIndex, c.FileKind)
	if c.MessageCheckpoint != nil {
		d += fmt.Sprintf(" msgoff %d", c.MessageCheckpoint.Offset)
		if sc := c.MessageCheckpoint.SourceCheckpoint; sc != nil {
			d += fmt.Sprintf(" srcoff %d", sc.Offset)
			Ev.ProbeIf(c.MessageCheckpoint.Offset > sc.Offset, "reader_checkpoint_with_source_lagging")
			Ev.ProbeIf(sc.Offset == 0 && c.MessageCheckpoint.Offset > 0, "decompressor_restart_from_zero")
			Ev.ProbeIf(c.MessageCheckpoint.Offset-sc.Offset > 16*MiB, "reader_checkpoint_more_than_16MiB_past_its_source_checkpoint")
		}
	}
	if c.BsdiffCheckpoint != nil {
		d += fmt.Sprintf(" bsdiff oldoff %d", c.BsdiffCheckpoint.OldOffset)
		Ev.ProbeIf(c.BsdiffCheckpoint.OldOffset > 0, "checkpoint_inside_bsdiff_series")
	}
	if c.RsyncCheckpoint != nil && c.RsyncCheckpoint.WriterCheckpoint != nil {
		d += fmt.Sprintf(" rsync writeroff %d", c.RsyncCheckpoint.WriterCheckpoint.Offset)
	}
	if c.BowlCheckpoint != nil {
		if oc, ok := c.BowlCheckpoint.Data.(*bowl.OverlayBowlCheckpoint); ok {
			Ev.ProbeIf(len(oc.Transpositions)+len(oc.OverlayFiles)+len(oc.MoveFiles) > 0, "bowl_work_lists_nonempty_at_checkpoint")
		}
	}
	s.Saves = append(s.Saves, savedCk{Gob: buf.Bytes(), Disk: MustSnapshot(s.DiskDir), Desc: d})
	if s.StopAt >= 0 && len(s.Saves)-1 == s.StopAt {
		return patcher.AfterSaveStop, nil
	}
	return patcher.AfterSaveContinue, nil
}

// session runs one patcher "process": brand-new source, patcher and bowl over the given disk
// state. overlay selects the in-place bowl. It returns the Resume error (nil, ErrStop or other).
type session struct {
	Patch        []byte
	OldDir       string // pristine old build (fresh: target pool dir)
	OutDir       string // fresh: output dir; overlay: directory holding the old build
	StageDir     string // overlay only
	Overlay      bool
	Slice        *Slicer
	SC           *scriptSC
	Ck           []byte // serialized checkpoint to resume from (nil: from the start)
	Whitelist    map[int64]bool
	OnSourceRead func(n int) // called before the n-th read of the patch source
	b            bowl.Bowl
	ResumeErr    error
	Panic        string
	Stage        string
	Touched      int64 // GetTouchedFiles after Resume returned
	NumFiles     int
}

func (se *session) run() {
	se.Stage = "new"
	se.Panic = Recover(func() {
		src, raw := NewSource(se.Patch, se.Slice, nil)
		if se.OnSourceRead != nil {
			raw.OnRead = func(n int, off int64) { se.OnSourceRead(n) }
		}
		p, err := patcher.New(src, Quiet())
		if err != nil {
			se.ResumeErr = err
			return
		}
		se.Stage = "bowl"
		var b bowl.Bowl
		target := se.OldDir
		if se.Overlay {
			target = se.OutDir
			b, err = bowl.NewOverlayBowl(bowl.OverlayBowlParams{TargetContainer: p.GetTargetContainer(), SourceContainer: p.GetSourceContainer(), OutputFolder: se.OutDir, StageFolder: se.StageDir})
		}
		targetPool := fspool.New(p.GetTargetContainer(), target)
		if !se.Overlay {
			b, err = bowl.NewFreshBowl(bowl.FreshBowlParams{TargetContainer: p.GetTargetContainer(), SourceContainer: p.GetSourceContainer(), TargetPool: targetPool, OutputFolder: se.OutDir})
		}
		if err != nil {
			se.ResumeErr = err
			return
		}
		se.b = b
		var c *patcher.Checkpoint
		if se.Ck != nil {
			se.Stage = "decode-checkpoint"
			c = &patcher.Checkpoint{}
			if err := gob.NewDecoder(bytes.NewReader(se.Ck)).Decode(c); err != nil {
				se.ResumeErr = fmt.Errorf("gob decode of checkpoint: %w", err)
				return
			}
		}
		if se.SC != nil {
			p.SetSaveConsumer(se.SC)
		}
		if se.Whitelist != nil {
			p.SetSourceIndexWhitelist(se.Whitelist)
		}
		se.Stage = "resume"
		se.ResumeErr = p.Resume(c, targetPool, b)
		se.Touched = p.GetTouchedFiles()
		se.NumFiles = len(p.GetSourceContainer().Files)
	})
}

func (se *session) commit() (err error, panicMsg string) {
	panicMsg = Recover(func() { err = se.b.Commit() })
	return
}

// mixFile builds the crash-state content of one file: dk is what was on disk at the checkpoint
// (nil = file did not exist), l what the process had written when it died.
func mixFile(dk, l []byte, mode int, rng *Rng) (content []byte, present bool) {
	const page = 4096
	if dk != nil && bytes.Equal(dk, l) {
		return l, true
	}
	switch mode {
	case 0: // everything written after the checkpoint reached the disk
		return l, true
	case 1: // nothing did
		if dk == nil {
			return nil, false
		}
		return dk, true
	}
	// partial: length between the two, page-wise choice between old and new bytes
	minLen := len(dk)
	if minLen > len(l) {
		minLen = len(l)
	}
	n := len(l)
	if mode == 3 && len(l) > minLen {
		n = minLen + rng.Intn(len(l)-minLen+1)
	}
	out := make([]byte, n)
	for off := 0; off < n; off += page {
		end := off + page
		if end > n {
			end = n
		}
		useNew := rng.Intn(2) == 0
		if mode == 4 { // prefix persisted, rest lost
			useNew = off < n/2
		}
		if useNew {
			copy(out[off:end], l[off:end])
		} else if off < len(dk) {
			e2 := end
			if e2 > len(dk) {
				e2 = len(dk)
			}
			copy(out[off:e2], dk[off:e2]) // beyond dk: zeros (hole)
		}
	}
	return out, true
}

// crashState materialises into dir the state a crash at instant L leaves when checkpoint D_k is
// the last durable one.
func crashState(dk, l *Snap, dir string, mode int, rng *Rng) (torn int) {
	t := Tree{}
	for p, e := range l.Tree {
		switch e.Kind {
		case KDir, KLink:
			c := *e
			t[p] = &c
		case KFile:
			var old []byte
			if oe, ok := dk.Tree[p]; ok && oe.Kind == KFile {
				old = oe.Data
				if old == nil {
					old = []byte{}
				}
			}
			content, present := mixFile(old, e.Data, mode, rng)
			if present {
				if !bytes.Equal(content, e.Data) {
					torn++
				}
				t[p] = &Entry{Kind: KFile, Data: content}
			} else {
				torn++
			}
		}
	}
	for p, e := range dk.Tree {
		if _, ok := t[p]; !ok && e.Kind != KFile {
			c := *e
			t[p] = &c
		}
	}
	t.Normalize()
	Must(t.Materialize(dir), "materialize crash state")
	return
}

// TestC03: interrupted application resumes from any checkpoint to the same result.
func TestC03(t *testing.T) {
	Ev.Rule = "generated build pairs x {plain, optimized} patches x {NONE, GZIP, BROTLI} x {fresh, overlay} bowls x save schedules; EVERY checkpoint offered in the instrumented run (capped at 24 per run, evenly spread) is restarted from, with sampled interruption lag and torn post-checkpoint state; chains of up to 3 interruptions; non-trivial = at least one checkpoint was offered and restarted from; distinct by (pair, patch kind, bowl, schedule)"
	Ev.Component("patcher (rsync+bsdiff series, checkpoints), wire reader checkpoints, savior sources/decompressors, fresh+overlay bowls, entry writers, overlay writer/applier, gob", "real")
	Ev.Component("SaveConsumer, process boundary (gob round trip, brand-new patcher/bowl/source), crash-state disk (checkpoint snapshot + page-wise torn later writes)", "simulated")
	Ev.Assume("crash model of the property: everything written before a checkpoint was handed out is durable; later writes are on disk wholly, partly (page-granular, any length >= the checkpointed one) or not at all; loss of un-fsynced pre-checkpoint data (power loss) is not modelled")
	Ev.Assume("interruptions happen during patching, before Commit starts")
	Prop(t, "C03", func(rt *rapid.T) {
		pair := GenPair(rt, GenOpts{Links: true, EmptyDirs: true, KindChange: true, LowEntropy: true, MaxMid: 260 * KiB, Big: rapid.IntRange(0, 29).Draw(rt, "allowbig") == 0, MidBias: rapid.IntRange(0, 3).Draw(rt, "midbias") != 0})
		overlay := rapid.Bool().Draw(rt, "overlay")
		if overlay && pair.HasKnownInPlaceShape() {
			// C02's known in-place commit findings are kept out of this property's verdict
			overlay = false
			Ev.Probe("overlay_avoided_known_inplace_shape")
		}
		if rapid.IntRange(0, 5).Draw(rt, "padgrows") == 0 && canPlace(pair.Old, "pad.bin") && canPlace(pair.New, "pad.bin") {
			// a file of one repeated non-zero byte that grows: what follows the old end equals what
			// came before it, at every offset
			fill := byte(rapid.SampledFrom([]int{0x01, 0xaa, 0xff}).Draw(rt, "padbyte"))
			mk := func(n int) []byte {
				b := make([]byte, n)
				for i := range b {
					b[i] = fill
				}
				return b
			}
			on := rapid.SampledFrom([]int{100 * KiB, 128 * KiB, 200*KiB + 7, 256 * KiB}).Draw(rt, "padold")
			pair.Old["pad.bin"] = &Entry{Kind: KFile, Data: mk(on)}
			pair.New["pad.bin"] = &Entry{Kind: KFile, Data: mk(on + rapid.SampledFrom([]int{64 * KiB, 128 * KiB, 300*KiB + 1}).Draw(rt, "padgrowth"))}
			pair.Meta["pad.bin"] = FileMeta{From: "pad.bin", Op: "constant fill grows"}
			Ev.Probe("constant_fill_file_grows")
		}
		assets := rapid.IntRange(0, 3).Draw(rt, "assets") == 0
		if assets {
			// "many small assets": every entry of the patch is one operation long (a new file in one
			// DATA op, or a file reused whole), so no series has a second loop turn
			ar := NewRng(rapid.Uint64().Draw(rt, "assetseed"))
			n := rapid.IntRange(4, 14).Draw(rt, "assetcount")
			pair.Old, pair.New, pair.Meta = Tree{"as": &Entry{Kind: KDir}}, Tree{"as": &Entry{Kind: KDir}}, map[string]FileMeta{}
			pair.KindChange, pair.DirFile = false, nil
			for i := 0; i < n; i++ {
				name := fmt.Sprintf("as/f%02d.dat", i)
				data := Bytes(ar.U64(), 1+ar.Intn(90*KiB))
				pair.New[name] = &Entry{Kind: KFile, Data: data}
				if ar.Intn(4) == 0 {
					pair.Old[fmt.Sprintf("as/g%02d.dat", i)] = &Entry{Kind: KFile, Data: data}
					pair.Meta[name] = FileMeta{From: fmt.Sprintf("as/g%02d.dat", i), Op: "renamed whole"}
				} else {
					pair.Meta[name] = FileMeta{Op: "new small asset"}
				}
			}
			pair.Ops = append(pair.Ops, fmt.Sprintf("assets shape: %d single-operation files", n))
			Ev.Probe("patch_of_single_operation_entries")
		}
		dir, cleanup := RunDir()
		defer cleanup()
		oldDir, newDir := filepath.Join(dir, "old"), filepath.Join(dir, "new")
		Must(pair.Old.Materialize(oldDir), "materialize old")
		Must(pair.New.Materialize(newDir), "materialize new")
		patch, desc, fail := genPatch(rt, oldDir, newDir, true)
		if fail != "" {
			Violation(rt, "C03/patch-production", "%s", fail)
			return
		}
		pattern := rapid.IntRange(0, 2).Draw(rt, "savepattern")
		if assets && rapid.IntRange(0, 2).Draw(rt, "assetsalways") != 0 {
			pattern = 0
		}
		pk := rapid.IntRange(2, 7).Draw(rt, "savek")
		should := func(call int) bool {
			switch pattern {
			case 0:
				return true
			case 1:
				return call%pk == 0
			}
			return (call/pk)%2 == 0 // bursts
		}
		// partial application (whitelist) combined with checkpoints (either bowl); the reference is the
		// uninterrupted partial application
		var whitelist map[int64]bool
		if rapid.IntRange(0, 3).Draw(rt, "usewhitelist") == 0 {
			whitelist = map[int64]bool{}
			n := len(pair.New.Files())
			for i := 0; i < n; i++ {
				if rapid.Bool().Draw(rt, "wl") {
					whitelist[int64(i)] = true
				}
			}
			Ev.Probe("whitelist_combined_with_checkpoints")
		}
		crashSeed := rapid.Uint64().Draw(rt, "crashseed")
		rng := NewRng(crashSeed)
		slice := drawSlicer(rt, "patchslice")
		bowlName := map[bool]string{false: "fresh", true: "overlay"}[overlay]
		cfg := fmt.Sprintf("patch %s, bowl %s, save pattern %d/%d, whitelist %v", desc, bowlName, pattern, pk, whitelist != nil)

		seq := 0
		mkdirs := func() (out, stage string) {
			seq++
			out = filepath.Join(dir, fmt.Sprintf("out%d", seq))
			stage = filepath.Join(dir, fmt.Sprintf("stage%d", seq))
			if overlay {
				Must(pair.Old.Materialize(out), "materialize in-place copy")
			}
			return
		}
		diskDir := func(out, stage string) string {
			if overlay {
				return stage
			}
			return out
		}

		// reference run R
		rout, rstage := mkdirs()
		ref := &session{Patch: patch, OldDir: oldDir, OutDir: rout, StageDir: rstage, Overlay: overlay, Whitelist: whitelist}
		ref.run()
		if ref.Panic != "" || ref.ResumeErr != nil {
			Violation(rt, "C03/reference-run", "uninterrupted apply failed at %s: %v %s (%s)", ref.Stage, ref.ResumeErr, ref.Panic, cfg)
			return
		}
		if err, p := ref.commit(); err != nil || p != "" {
			Violation(rt, "C03/reference-run", "uninterrupted Commit failed: %v %s (%s)", err, p, cfg)
			return
		}
		tref := MustSnapshot(rout).Tree
		if d := pair.New.Diff(tref); d != "" && whitelist == nil {
			Violation(rt, "C03/reference-run", "uninterrupted apply differs from the new build: %s (%s)", d, cfg)
			return
		}

		// instrumented run B: collect every checkpoint with its disk state
		bout, bstage := mkdirs()
		sc := &scriptSC{Should: should, StopAt: -1, DiskDir: diskDir(bout, bstage), Late: rapid.IntRange(0, 2).Draw(rt, "lateserialization") == 0}
		b := &session{Patch: patch, OldDir: oldDir, OutDir: bout, StageDir: bstage, Overlay: overlay, Slice: slice, SC: sc, Whitelist: whitelist}
		// interruption instants between checkpoints: disk snapshots taken at every n-th read of the
		// patch source (at most 12), remembered with the number of checkpoints handed out so far
		type midSnap struct {
			after int // number of checkpoints saved before this instant
			disk  *Snap
		}
		var mids []midSnap
		midEvery := rapid.IntRange(3, 40).Draw(rt, "midevery")
		b.OnSourceRead = func(n int) {
			if n%midEvery == 0 && len(mids) < 12 && len(sc.Saves) > 0 {
				mids = append(mids, midSnap{after: len(sc.Saves), disk: MustSnapshot(sc.DiskDir)})
			}
		}
		b.run()
		sc.flushLate()
		Ev.ProbeIf(sc.Late && len(sc.Saves) > 1, "checkpoints_serialized_only_after_the_patcher_moved_on")
		if b.Panic != "" || b.ResumeErr != nil {
			Violation(rt, "C03/saving-run", "apply with a saving consumer failed at %s: %v %s (%s)", b.Stage, b.ResumeErr, b.Panic, cfg)
			return
		}
		if sc.EncErr != nil {
			Violation(rt, "C03/checkpoint-not-serializable", "gob cannot encode a checkpoint: %v (%s)", sc.EncErr, cfg)
			return
		}
		final := MustSnapshot(diskDir(bout, bstage)) // state at the end of patching, before Commit
		if err, p := b.commit(); err != nil || p != "" {
			Violation(rt, "C03/saving-run", "Commit after a saving run failed: %v %s (%s)", err, p, cfg)
			return
		}
		if d := tref.Diff(MustSnapshot(bout).Tree); d != "" {
			Violation(rt, "C03/saving-run", "apply with a saving consumer differs from the uninterrupted result: %s (%s)", d, cfg)
			return
		}
		m := len(sc.Saves)

		// liveness: an always-asking consumer is given checkpoints (decidable case: uncompressed
		// patch with a series of >= 2 messages that is not a whole-file operation)
		if pattern == 0 && m == 0 {
			if rp, err := DecodePatch(patch); err == nil && rp.Header.Compression.Algorithm == pwr.CompressionAlgorithm_NONE {
				// ... or a patch that deals with three files or more, of whatever kind: whole-file
				// reuse included (a patch made of renames and unchanged files is still an
				// application that can take long and be interrupted)
				processed := 0
				for i := range rp.Files {
					if whitelist == nil || whitelist[int64(i)] {
						processed++
					}
				}
				if processed >= 3 {
					Violation(rt, "C03/no-checkpoint-offered", "consumer always asked to save, patch is uncompressed and applies %d files, yet no checkpoint was offered (%s)", processed, cfg)
					return
				}
				for i, fs := range rp.Files {
					multi := len(fs.Ctrl) >= 2 || (len(fs.Ops) >= 3)
					if whitelist != nil && !whitelist[int64(i)] {
						continue // a skipped file's series is read without offering checkpoints
					}
					if multi {
						Violation(rt, "C03/no-checkpoint-offered", "consumer always asked to save, patch is uncompressed and file %d has a series of %d messages, yet no checkpoint was offered (%s)", i, len(fs.Ops)+len(fs.Ctrl), cfg)
						return
					}
				}
			}
		}

		// restart from every checkpoint k (capped, evenly spread)
		idx := make([]int, 0, m)
		if m <= 24 {
			for k := 0; k < m; k++ {
				idx = append(idx, k)
			}
		} else {
			for j := 0; j < 24; j++ {
				idx = append(idx, j*m/24)
			}
		}
		restarts, tornFiles := 0, 0
		for _, k := range idx {
			ck := sc.Saves[k]
			lag := rng.Intn(4)
			if rng.Intn(3) == 0 {
				lag = rng.Intn(m - k + 1)
			}
			l := final
			if k+lag < m {
				l = sc.Saves[k+lag].Disk
			}
			mode := rng.Intn(5)
			if lag == 0 {
				l = ck.Disk // stopped exactly at the checkpoint
			} else if rng.Intn(3) == 0 {
				// died somewhere between two checkpoints
				var cands []*Snap
				for _, ms := range mids {
					if ms.after > k {
						cands = append(cands, ms.disk)
					}
				}
				if len(cands) > 0 {
					l = cands[rng.Intn(len(cands))]
					Ev.Probe("interrupted_between_checkpoints")
				}
			}
			curCk, curDk, curL := ck.Gob, ck.Disk, l
			chainDesc := fmt.Sprintf("restart from checkpoint %d/%d (%s) lag %d tear mode %d", k, m, ck.Desc, lag, mode)
			for depth := 0; depth < 3; depth++ {
				out, stage := mkdirs()
				tornFiles += crashState(curDk, curL, diskDir(out, stage), mode, rng)
				stop := -1
				if depth < 2 && rng.Intn(3) == 0 {
					stop = rng.Intn(4)
				}
				sc2 := &scriptSC{Should: should, StopAt: stop, DiskDir: diskDir(out, stage)}
				se := &session{Patch: patch, OldDir: oldDir, OutDir: out, StageDir: stage, Overlay: overlay, Slice: NewSlicer(int(crashSeed%4), crashSeed+uint64(k)), SC: sc2, Ck: curCk, Whitelist: whitelist}
				se.run()
				restarts++
				Ev.Fault("crash_restart", 1)
				if se.Panic != "" {
					Violation(rt, "C03/resume-panic", "%s: resumed run panicked at %s: %s (%s)", chainDesc, se.Stage, se.Panic, cfg)
					return
				}
				if se.ResumeErr == patcher.ErrStop || (se.ResumeErr != nil && se.ResumeErr.Error() == patcher.ErrStop.Error()) {
					if len(sc2.Saves) == 0 {
						Violation(rt, "C03/stop-without-save", "%s: ErrStop without a save", chainDesc)
						return
					}
					last := sc2.Saves[len(sc2.Saves)-1]
					curCk, curDk, curL = last.Gob, last.Disk, last.Disk
					mode = 0
					chainDesc += fmt.Sprintf(" -> stopped again at its checkpoint %d (%s)", len(sc2.Saves)-1, last.Desc)
					Ev.Probe("chained_interruption")
					os.RemoveAll(out)
					os.RemoveAll(stage)
					continue
				}
				if se.ResumeErr != nil {
					Violation(rt, "C03/resume-error", "%s: resumed run failed at %s: %+v (%s)\nops %v", chainDesc, se.Stage, trimErr(se.ResumeErr), cfg, pair.Ops)
					return
				}
				wantTouched := int64(se.NumFiles)
				if whitelist != nil {
					wantTouched = 0
					for i := range whitelist {
						if i < int64(se.NumFiles) {
							wantTouched++
						}
					}
				}
				// (C17's statement, evaluated here because this is where a whitelisted application is
				// finished by another patcher; without a whitelist no property speaks about the count)
				if whitelist != nil && se.Touched != wantTouched {
					Violation(rt, "C03/resume-touched-count", "%s: the resumed patcher reports %d touched files, the application as a whole handled %d (%s)", chainDesc, se.Touched, wantTouched, cfg)
					return
				}
				if err, p := se.commit(); err != nil || p != "" {
					Violation(rt, "C03/resume-commit-error", "%s: Commit after resume failed: %v %s (%s)", chainDesc, err, p, cfg)
					return
				}
				if d := tref.Diff(MustSnapshot(out).Tree); d != "" {
					Violation(rt, "C03/resume-wrong-output", "%s: result differs from the uninterrupted run: %s (%s)\nops %v", chainDesc, d, cfg, pair.Ops)
					return
				}
				os.RemoveAll(out)
				os.RemoveAll(stage)
				break
			}
		}
		Ev.Fault("torn_files_in_crash_states", tornFiles)
		Ev.ProbeIf(m > 0, "runs_with_checkpoints")
		Ev.ProbeIf(overlay && m > 0, "overlay_bowl_resumed")
		Ev.ProbeIf(!overlay && m > 0, "fresh_bowl_resumed")
		Ev.Eval(pair.Hash()^fnv64([]byte(cfg), []byte(fmt.Sprint(crashSeed))), restarts > 0, func() interface{} {
			s := pair.Sample()
			s["config"], s["checkpoints_offered"], s["restarts"] = cfg, m, restarts
			var ds []string
			for i, c := range sc.Saves {
				if i < 8 {
					ds = append(ds, c.Desc)
				}
			}
			s["first_checkpoints"] = ds
			return s
		})
	})
}
