package sim

import (
	"fmt"
	"path/filepath"
	"testing"

	"github.com/itchio/wharf/pwr"
	"pgregory.net/rapid"
)

// TestC08: data already present in the old build is not sent again.
func TestC08(t *testing.T) {
	Ev.Rule = "builds of high-entropy files; new build derived by renames, moves onto other paths, duplications and k<=4 localized edits (overwrite/insert/delete at boundary-biased offsets); identical builds with probability 1/6; non-trivial = some new file derives from an old one; distinct by (pair, compression). THIN: the bound itself is decided by seeded inputs; the simulator contributes read slicing / schedule invariance of the accounting"
	Ev.Component("pwr.DiffContext.WritePatch accounting, wsync rolling hash + lookup", "real")
	Ev.Component("source pool reads, writers, goroutine schedule", "simulated")
	Prop(t, "C08", func(rt *rapid.T) {
		pair := GenPair(rt, GenOpts{Big: true, NoEdits: true, HighEntropyOnly: true, MaxFiles: 5})
		if rapid.IntRange(0, 19).Draw(rt, "verybig") == 0 {
			// a file several times the differ's 4 MiB window with one alignment-shifting edit near the
			// front: the bound must not grow with file size
			sz := rapid.SampledFrom([]int{9 * MiB, 13 * MiB, 17*MiB + 12345}).Draw(rt, "verybigsize")
			data := Bytes(rapid.Uint64().Draw(rt, "verybigseed"), sz)
			off := rapid.IntRange(0, 200*KiB).Draw(rt, "verybigoff")
			ins := rapid.SampledFrom([]int{1, 7, 1000, BlockSize + 1}).Draw(rt, "verybiglen")
			var nw []byte
			intro := 0
			if rapid.Bool().Draw(rt, "verybigdelete") {
				nw = append(append([]byte{}, data[:off]...), data[off+ins:]...)
			} else {
				nw = append(append(append([]byte{}, data[:off]...), Bytes(uint64(ins), ins)...), data[off:]...)
				intro = ins
			}
			pair.Old["huge.bin"] = &Entry{Kind: KFile, Data: data}
			pair.New["huge.bin"] = &Entry{Kind: KFile, Data: nw}
			pair.Meta["huge.bin"] = FileMeta{From: "huge.bin", Edits: 1, Introduced: intro, Op: fmt.Sprintf("shift by %d at %d in %d MiB", ins, off, sz/MiB)}
			Ev.Probe("file_several_times_the_4MiB_window_with_shifting_edit")
		}
		if rapid.IntRange(0, 11).Draw(rt, "wrapedit") == 0 {
			// a file longer than the differ's window with a few bytes overwritten in the blocks the
			// differ is busy with when its buffer wraps around (66 blocks in, then every 64)
			sz := rapid.SampledFrom([]int{5 * MiB, 6*MiB + 777, 9 * MiB}).Draw(rt, "wrapsize")
			data := Bytes(rapid.Uint64().Draw(rt, "wrapseed"), sz)
			nw := append([]byte{}, data...)
			k := 0
			for _, blk := range []int{63, 64, 65, 66, 67, 128, 129, 130, 131} {
				off := blk*BlockSize + rapid.IntRange(0, BlockSize-4).Draw(rt, "wrapoff")
				if off+3 < sz && rapid.IntRange(0, 3).Draw(rt, "wrapuse") == 0 {
					nw[off] ^= 0x11
					nw[off+1] ^= 0x22
					nw[off+2] ^= 0x33
					k++
				}
			}
			if k > 0 {
				pair.Old["wrap.bin"] = &Entry{Kind: KFile, Data: data}
				pair.New["wrap.bin"] = &Entry{Kind: KFile, Data: nw}
				pair.Meta["wrap.bin"] = FileMeta{From: "wrap.bin", Edits: k, Introduced: 3 * k, Op: fmt.Sprintf("%d overwrites of 3 bytes around the wrap points of a %d MiB file", k, sz/MiB)}
				Ev.Probe("overwrites_where_the_differs_buffer_wraps")
			}
		}
		identical := rapid.IntRange(0, 5).Draw(rt, "identical") == 0
		movedZ := false
		if identical {
			if rapid.Bool().Draw(rt, "collisions") {
				// blocks that share a weak hash inside one build: near-duplicates (+1,-2,+1), an empty
				// file (placeholder hash with weak hash 0) next to blocks of an even constant byte
				base := Bytes(rapid.Uint64().Draw(rt, "colseed"), 2*BlockSize+rapid.IntRange(0, 5000).Draw(rt, "coltail"))
				if nd, ok := WeakCollide(base, rapid.IntRange(0, len(base)-3).Draw(rt, "coloff")); ok {
					pair.Old["col/a.bin"], pair.Old["col/b.bin"] = &Entry{Kind: KFile, Data: base}, &Entry{Kind: KFile, Data: nd}
					// and both variants inside one file (several entries of the same file in one bucket)
					fb := len(base) / BlockSize * BlockSize
					pair.Old["col/both.bin"] = &Entry{Kind: KFile, Data: append(append(append([]byte{}, base[:fb]...), nd[:fb]...), base[fb:]...)}
				}
				pair.Old["col/0empty"] = &Entry{Kind: KFile, Data: []byte{}}
				fill := make([]byte, 2*BlockSize+100)
				for i := range fill {
					fill[i] = rapid.SampledFrom([]byte{0, 2, 6}).Draw(rt, "colfill")
					if i > 0 {
						fill[i] = fill[0]
					}
				}
				pair.Old["col/fill.bin"] = &Entry{Kind: KFile, Data: fill}
				// a file whose FIRST block is the only block of the build with weak hash 0 (apart from
				// the placeholder of the empty file), followed by a short high-entropy tail
				pair.Old["col/one.bin"] = &Entry{Kind: KFile, Data: append(append([]byte{}, fill[:BlockSize]...), Bytes(9, 100)...)}
				if fill[0] != 0 {
					delete(pair.Old, "col/fill.bin")
				}
				// a short block and a full block with one weak hash, the short one listed first; the
				// file with the full block goes by another name in the new build
				pair.Old["col/0short.bin"] = &Entry{Kind: KFile, Data: make([]byte, 100)}
				pair.Old["col/zfull.bin"] = &Entry{Kind: KFile, Data: make([]byte, BlockSize+rapid.SampledFrom([]int{0, 100}).Draw(rt, "zfulltail"))}
				movedZ = rapid.Bool().Draw(rt, "zfullmoved")
				pair.Old.Normalize()
				Ev.Probe("identical_builds_with_weak_hash_collisions_inside")
			}
			pair.New = pair.Old.Clone()
			pair.Meta = map[string]FileMeta{}
			for _, p := range pair.New.Files() {
				pair.Meta[p] = FileMeta{From: p, Identical: true, Op: "keep"}
			}
			if movedZ {
				pair.New["col/zmoved.bin"] = pair.New["col/zfull.bin"]
				delete(pair.New, "col/zfull.bin")
				delete(pair.Meta, "col/zfull.bin")
				pair.Meta["col/zmoved.bin"] = FileMeta{From: "col/zfull.bin", Identical: true, Op: "rename"}
			}
		}
		comp := GenCompression(rt)
		srcSlice := drawSlicer(rt, "srcslice")
		spec := drawSched(rt)
		eofWith := rapid.Bool().Draw(rt, "eofwith")
		// (and an empty read now and then: legal for an io.Reader, if discouraged)
		zeroReads := rapid.SampledFrom([]int{0, 0, 0, 2, 3, 7}).Draw(rt, "zeroreads")
		sigViaFile := rapid.Bool().Draw(rt, "sigviafile")
		twice := rapid.IntRange(0, 3).Draw(rt, "writepatchtwice") == 0

		dir, cleanup := RunDir()
		defer cleanup()
		oldDir, newDir := filepath.Join(dir, "old"), filepath.Join(dir, "new")
		Must(pair.Old.Materialize(oldDir), "materialize old")
		Must(pair.New.Materialize(newDir), "materialize new")

		s := &Sched{Spec: spec, MaxSteps: 200000}
		var dr *DiffResult
		s.Run(t, func() {
			dr = Diff(oldDir, newDir, comp, DiffSeams{SourceSlice: srcSlice, Yield: s.Yield, EOFWith: eofWith, ZeroReads: zeroReads, SigViaFile: sigViaFile, Twice: twice})
		})
		if s.BudgetExceeded {
			return
		}
		if s.Stuck || s.Panic != "" || dr.Panic != "" || dr.Err != nil {
			Violation(rt, "C08/diff-failed", "WritePatch failed: stuck=%v panic=%q%q err=%v", s.Stuck, s.Panic, dr.Panic, dr.Err)
			return
		}
		if srcSlice != nil {
			Ev.Fault("short_read_source_pool", srcSlice.Cuts)
		}
		total := pair.New.TotalSize()
		if dr.Fresh+dr.Reused != total {
			Violation(rt, "C08/accounting", "FreshBytes %d + ReusedBytes %d = %d, new build has %d bytes", dr.Fresh, dr.Reused, dr.Fresh+dr.Reused, total)
			return
		}
		rp, err := DecodePatch(dr.Patch)
		if err != nil {
			Violation(rt, "C08/undecodable-patch", "%v", err)
			return
		}
		var sumFresh int64
		related := false
		for i, fs := range rp.Files {
			sf := rp.Source.Files[i]
			var fresh int64
			for _, op := range fs.Ops {
				if op.Type == pwr.SyncOp_DATA {
					fresh += int64(len(op.Data))
				}
			}
			sumFresh += fresh
			m, ok := pair.Meta[sf.Path]
			if !ok {
				continue
			}
			if m.From != "" {
				related = true
			}
			if m.Identical && m.From != "" && fresh != 0 {
				Violation(rt, "C08/identical-file-resent", "%s has the content of old file %s (%s) but the patch carries %d fresh bytes for it (size %d)", sf.Path, m.From, m.Op, fresh, sf.Size)
				return
			}
			if m.From != "" && !m.Identical && m.Edits > 0 {
				bound := int64(m.Introduced) + int64(2*m.Edits+2)*BlockSize
				if fresh > bound {
					Violation(rt, "C08/edit-bound", "%s derives from %s by %d edits introducing %d bytes (%s); fresh bytes %d exceed the bound %d (file size %d)", sf.Path, m.From, m.Edits, m.Introduced, m.Op, fresh, bound, sf.Size)
					return
				}
				Ev.Probe("edited_file_checked")
			}
		}
		if sumFresh != dr.Fresh {
			Violation(rt, "C08/accounting-vs-stream", "FreshBytes says %d, the op stream carries %d", dr.Fresh, sumFresh)
			return
		}
		if identical {
			Ev.Probe("identical_builds")
			if dr.Fresh != 0 {
				Violation(rt, "C08/identical-builds-carry-data", "patch between identical builds carries %d fresh bytes", dr.Fresh)
				return
			}
		}

		// accounting must not depend on slicing / schedule: second run, other slicing, free-running
		dr2 := Diff(oldDir, newDir, comp, DiffSeams{SourceSlice: NewSlicer(1, spec.Seed)})
		if dr2.Err != nil || dr2.Panic != "" {
			Violation(rt, "C08/diff-failed", "second WritePatch failed: %v %s", dr2.Err, dr2.Panic)
			return
		}
		if dr2.Fresh != dr.Fresh || dr2.Reused != dr.Reused {
			Violation(rt, "C08/accounting-schedule-dependent", "fresh/reused (%d,%d) under the schedule vs (%d,%d) free-running with other slicing", dr.Fresh, dr.Reused, dr2.Fresh, dr2.Reused)
			return
		}

		Ev.Eval(pair.Hash()^fnv64([]byte(CompString(comp))), related, func() interface{} {
			m := pair.Sample()
			m["fresh"], m["reused"], m["compression"] = dr.Fresh, dr.Reused, CompString(comp)
			m["slicing"] = fmt.Sprintf("src=%s", slicerDesc(srcSlice))
			return m
		})
	})
}
