package sim

import (
	"errors"
	"fmt"
	"github.com/itchio/wharf/pwr/bowl"
	"io"
	"os"
	"reflect"
	"sync"

	"github.com/itchio/lake"
)

// Slicer decides how many bytes a simulated read or write transfers. It is expanded from a
// rapid-drawn (mode, seed) pair.
//
//	mode 0: full transfers
//	mode 1: uniformly random length in [1, len]
//	mode 2: tiny (1..3 bytes) with probability 1/4, else full
//	mode 3: block-edge hunting: lengths that end 1 byte before/at/after a multiple of Edge
//	mode 4: fixed small chunk (seed%97+1)
//	mode 5: fixed chunk of 20000..39999 bytes (what a network reader hands out: sizeable, and
//	        aligned with nothing)
type Slicer struct {
	Mode    int
	Edge    int
	rng     *Rng
	seed    uint64
	pos     int64
	Cuts    int // number of transfers that were shortened
	MaxCuts int
}

func NewSlicer(mode int, seed uint64) *Slicer {
	return &Slicer{Mode: mode, Edge: 64 * 1024, rng: NewRng(seed), seed: seed}
}

func (s *Slicer) Next(n int) int {
	if s == nil || n <= 1 || s.Mode == 0 {
		return n
	}
	if s.MaxCuts == 0 {
		s.MaxCuts = 4000
	}
	if s.Cuts >= s.MaxCuts {
		// keep runs bounded: after enough shortened transfers behave like a plain reader
		s.pos += int64(n)
		return n
	}
	m := n
	switch s.Mode {
	case 1:
		m = 1 + s.rng.Intn(n)
	case 2:
		if s.rng.Intn(4) == 0 {
			m = 1 + s.rng.Intn(3)
		}
	case 3:
		// aim for an edge
		e := int64(s.Edge)
		toEdge := int(e - s.pos%e)
		m = toEdge + s.rng.Intn(3) - 1
		if s.rng.Intn(3) == 0 {
			m = 1 + s.rng.Intn(n)
		}
	case 4:
		m = int(s.seed%97) + 1
	case 5:
		m = 20000 + int(s.seed%20000)
	}
	if m < 1 {
		m = 1
	}
	if m > n {
		m = n
	}
	if m < n {
		s.Cuts++
	}
	s.pos += int64(m)
	return m
}

// ReadEvent is one entry of a pool's I/O history.
type ReadEvent struct {
	Op    string // "open", "openrs", "read", "seek", "close", "size"
	Index int64
	Off   int64
	N     int
}

// Pool wraps a lake.Pool (normally a real fspool on the simulated disk) and adds what the
// simulator needs: a park point before every call, seeded short reads, an injected error on the
// n-th read, and a complete history.
type Pool struct {
	Inner lake.Pool
	Name  string

	Slice    *Slicer // nil: full reads
	Yield    func(site string)
	FailRead int // >0: the FailRead-th Read returns ErrInjected
	FailSeek int // >0: the FailSeek-th Seek fails with ErrInjected and leaves the reader where it was
	FailOpen int // >0: the FailOpen-th GetReader/GetReadSeeker fails with ErrInjected
	opens    int
	OnRead   func(ev ReadEvent) // called before each read (scheduler actions, mid-run damage)
	// AfterRead is called when a read has its bytes, before it returns them (a slow response)
	AfterRead func(ev ReadEvent)
	Record    bool
	EOFWith   bool // deliver io.EOF together with the last bytes of a file (legal io.Reader behaviour)
	// ZeroReads > 0: every ZeroReads-th Read returns (0, nil) before anything is read (legal, if
	// discouraged, for an io.Reader)
	ZeroReads int

	mu      sync.Mutex
	History []ReadEvent
	reads   int
	seeks   int
	Faults  int
	lastRS  *poolReader
}

func sameReader(a, b io.ReadSeeker) (same bool) {
	defer func() {
		if recover() != nil {
			same = false
		}
	}()
	return a == b
}

var ErrInjected = errors.New("sim: injected I/O error")

var _ lake.Pool = (*Pool)(nil)

func (p *Pool) yield(site string) {
	if p.Yield != nil {
		p.Yield(p.Name + "." + site)
	}
}

func (p *Pool) rec(ev ReadEvent) {
	if p.Record {
		p.mu.Lock()
		p.History = append(p.History, ev)
		p.mu.Unlock()
	}
}

func (p *Pool) GetSize(i int64) int64 {
	return p.Inner.GetSize(i)
}

func (p *Pool) failOpen() bool {
	p.mu.Lock()
	defer p.mu.Unlock()
	p.opens++
	if p.FailOpen > 0 && p.opens == p.FailOpen {
		p.Faults++
		return true
	}
	return false
}

func (p *Pool) GetReader(i int64) (io.Reader, error) {
	p.yield("GetReader")
	p.rec(ReadEvent{Op: "open", Index: i})
	if p.failOpen() {
		return nil, ErrInjected
	}
	r, err := p.Inner.GetReader(i)
	if err != nil {
		return nil, err
	}
	if rs, ok := r.(io.ReadSeeker); ok {
		return &poolReader{p: p, rs: rs, idx: i}, nil
	}
	return &poolReader{p: p, r: r, idx: i}, nil
}

func (p *Pool) GetReadSeeker(i int64) (io.ReadSeeker, error) {
	p.yield("GetReadSeeker")
	p.rec(ReadEvent{Op: "openrs", Index: i})
	if p.failOpen() {
		return nil, ErrInjected
	}
	rs, err := p.Inner.GetReadSeeker(i)
	if err != nil {
		return nil, err
	}
	if v := reflect.ValueOf(rs); rs == nil || (v.Kind() == reflect.Ptr && v.IsNil()) {
		// lake's fspool (a dependency, not the code under test) forgets to reset its cached index
		// when an open fails: asked again for the file it had open before, it returns a nil reader
		// and no error. The seam reports what the pool should have reported.
		return nil, fmt.Errorf("sim: pool %s has no reader for file %d (its last open failed)", p.Name, i)
	}
	off, _ := rs.Seek(0, io.SeekCurrent)
	// like the pools wharf ships, hand out the same object as long as the underlying reader is the
	// same one (callers may, rightly or wrongly, remember it)
	p.mu.Lock()
	defer p.mu.Unlock()
	if p.lastRS != nil && sameReader(p.lastRS.rs, rs) {
		p.lastRS.off = off
		return p.lastRS, nil
	}
	p.lastRS = &poolReader{p: p, rs: rs, idx: i, off: off}
	return p.lastRS, nil
}

func (p *Pool) Close() error {
	p.rec(ReadEvent{Op: "close", Index: -1})
	return p.Inner.Close()
}

type poolReader struct {
	p   *Pool
	r   io.Reader
	rs  io.ReadSeeker
	idx int64
	off int64
}

func (r *poolReader) Read(b []byte) (int, error) {
	p := r.p
	p.yield("Read")
	p.mu.Lock()
	p.reads++
	n := p.reads
	p.mu.Unlock()
	if p.OnRead != nil {
		p.OnRead(ReadEvent{Op: "read", Index: r.idx, Off: r.off, N: len(b)})
	}
	if p.FailRead > 0 && n == p.FailRead {
		p.Faults++
		return 0, ErrInjected
	}
	if p.ZeroReads > 0 && n%p.ZeroReads == 0 && len(b) > 0 {
		p.Faults++
		return 0, nil
	}
	m := len(b)
	if p.Slice != nil {
		m = p.Slice.Next(m)
	}
	var got int
	var err error
	if r.rs != nil {
		got, err = r.rs.Read(b[:m])
	} else {
		got, err = r.r.Read(b[:m])
	}
	p.rec(ReadEvent{Op: "read", Index: r.idx, Off: r.off, N: got})
	if p.AfterRead != nil {
		p.AfterRead(ReadEvent{Op: "read", Index: r.idx, Off: r.off, N: got})
	}
	r.off += int64(got)
	if err == nil && got > 0 && p.EOFWith && r.off >= p.Inner.GetSize(r.idx) {
		// the reader knows it is at the end: report it with the data instead of on the next call
		p.Faults++
		return got, io.EOF
	}
	return got, err
}

func (r *poolReader) Seek(off int64, whence int) (int64, error) {
	if r.rs == nil {
		return 0, fmt.Errorf("sim pool: not seekable")
	}
	r.p.mu.Lock()
	r.p.seeks++
	failNow := r.p.FailSeek > 0 && r.p.seeks == r.p.FailSeek
	r.p.mu.Unlock()
	if failNow {
		// the position of the underlying reader does not change
		r.p.Faults++
		return r.off, ErrInjected
	}
	n, err := r.rs.Seek(off, whence)
	r.p.rec(ReadEvent{Op: "seek", Index: r.idx, Off: n})
	r.off = n
	return n, err
}

// MemPool is a lake.Pool served from a Tree, indexed like the given path list. Missing paths
// yield os.ErrNotExist. It mimics fspool in caching a single reader per file index.
type MemPool struct {
	Paths []string
	Sizes []int64 // sizes the container claims (GetSize); content may differ when damaged
	T     Tree

	last   int64
	reader *memReader
}

func NewMemPool(paths []string, sizes []int64, t Tree) *MemPool {
	return &MemPool{Paths: paths, Sizes: sizes, T: t, last: -1}
}

func (m *MemPool) GetSize(i int64) int64 { return m.Sizes[i] }

func (m *MemPool) GetReader(i int64) (io.Reader, error) {
	rs, err := m.GetReadSeeker(i)
	if err != nil {
		return nil, err
	}
	rs.Seek(0, io.SeekStart)
	return rs, nil
}

func (m *MemPool) GetReadSeeker(i int64) (io.ReadSeeker, error) {
	if m.last != i || m.reader == nil {
		if i < 0 || int(i) >= len(m.Paths) {
			return nil, fmt.Errorf("mempool: index %d out of range", i)
		}
		e, ok := m.T[m.Paths[i]]
		if !ok || e.Kind != KFile {
			return nil, &os.PathError{Op: "open", Path: m.Paths[i], Err: os.ErrNotExist}
		}
		m.reader = &memReader{b: e.Data}
		m.last = i
	}
	return m.reader, nil
}

func (m *MemPool) Close() error {
	m.reader = nil
	m.last = -1
	return nil
}

// memReader is a file-like reader: short only at EOF, EOF reported with 0 bytes.
type memReader struct {
	b   []byte
	off int64
}

func (r *memReader) Read(p []byte) (int, error) {
	if r.off >= int64(len(r.b)) {
		return 0, io.EOF
	}
	n := copy(p, r.b[r.off:])
	r.off += int64(n)
	return n, nil
}

func (r *memReader) Seek(off int64, whence int) (int64, error) {
	var n int64
	switch whence {
	case io.SeekStart:
		n = off
	case io.SeekCurrent:
		n = r.off + off
	case io.SeekEnd:
		n = int64(len(r.b)) + off
	}
	if n < 0 {
		return 0, fmt.Errorf("memReader: negative seek")
	}
	r.off = n
	return n, nil
}

// Source is the io.ReadSeeker placed under seeksource.NewWithSize for patches, signatures and
// overlays: seeded short reads, a park point per read, a cut (the stream ends early although the
// declared size is larger => unexpected EOF), an injected error on the n-th read.
type Source struct {
	Data     []byte
	Slice    *Slicer
	Yield    func(site string)
	FailRead int
	OnRead   func(n int, off int64)

	off   int64
	Reads int
}

func (s *Source) Read(p []byte) (int, error) {
	if s.Yield != nil {
		s.Yield("source.Read")
	}
	s.Reads++
	if s.OnRead != nil {
		s.OnRead(s.Reads, s.off)
	}
	if s.FailRead > 0 && s.Reads == s.FailRead {
		return 0, ErrInjected
	}
	if s.off >= int64(len(s.Data)) {
		return 0, io.EOF
	}
	m := len(p)
	if s.Slice != nil {
		m = s.Slice.Next(m)
	}
	n := copy(p[:m], s.Data[s.off:])
	s.off += int64(n)
	return n, nil
}

func (s *Source) Seek(off int64, whence int) (int64, error) {
	var n int64
	switch whence {
	case io.SeekStart:
		n = off
	case io.SeekCurrent:
		n = s.off + off
	case io.SeekEnd:
		n = int64(len(s.Data)) + off
	}
	if n < 0 {
		return 0, fmt.Errorf("sim source: negative seek")
	}
	s.off = n
	return n, nil
}

// Writer collects written bytes, records the slicing it was given, parks before each write and
// can fail after a number of bytes (full disk).
type Writer struct {
	Name      string
	Yield     func(site string)
	FailAfter int64 // >0: writes beyond this many bytes fail with ErrInjected

	mu     sync.Mutex
	Buf    []byte
	Writes int
}

func (w *Writer) Write(p []byte) (int, error) {
	if w.Yield != nil {
		w.Yield(w.Name + ".Write")
	}
	w.mu.Lock()
	defer w.mu.Unlock()
	w.Writes++
	if w.FailAfter > 0 && int64(len(w.Buf)+len(p)) > w.FailAfter {
		room := w.FailAfter - int64(len(w.Buf))
		if room < 0 {
			room = 0
		}
		w.Buf = append(w.Buf, p[:room]...)
		return int(room), ErrInjected
	}
	w.Buf = append(w.Buf, p...)
	return len(p), nil
}

func (w *Writer) Bytes() []byte {
	w.mu.Lock()
	defer w.mu.Unlock()
	return w.Buf
}

// Reset empties the writer (the caller reuses its destination for another attempt).
func (w *Writer) Reset() {
	w.mu.Lock()
	defer w.mu.Unlock()
	w.Buf = nil
}

// SliceReader is a plain io.Reader over bytes with seeded short reads, optional (0,nil) reads
// and the choice of delivering EOF together with or after the last bytes.
type SliceReader struct {
	Data      []byte
	Slice     *Slicer
	ZeroReads bool // sometimes return (0, nil)
	EOFWith   bool // deliver io.EOF together with the last bytes
	rng       *Rng
	off       int
}

func NewSliceReader(data []byte, mode int, seed uint64, zero, eofWith bool) *SliceReader {
	return &SliceReader{Data: data, Slice: NewSlicer(mode, seed), ZeroReads: zero, EOFWith: eofWith, rng: NewRng(seed ^ 0xabcdef)}
}

func (r *SliceReader) Read(p []byte) (int, error) {
	if len(p) == 0 {
		return 0, nil
	}
	if r.off >= len(r.Data) {
		return 0, io.EOF
	}
	if r.ZeroReads && r.rng.Intn(5) == 0 {
		return 0, nil
	}
	m := r.Slice.Next(len(p))
	n := copy(p[:m], r.Data[r.off:])
	r.off += n
	if r.off >= len(r.Data) && r.EOFWith {
		return n, io.EOF
	}
	return n, nil
}

// Seek makes SliceReader an io.ReadSeeker (a file-like object that may still return short reads,
// which io.Reader allows at any time).
func (r *SliceReader) Seek(off int64, whence int) (int64, error) {
	var n int64
	switch whence {
	case io.SeekStart:
		n = off
	case io.SeekCurrent:
		n = int64(r.off) + off
	case io.SeekEnd:
		n = int64(len(r.Data)) + off
	default:
		return 0, errors.New("sim: bad whence")
	}
	if n < 0 {
		return 0, errors.New("sim: negative position")
	}
	if n > int64(len(r.Data)) {
		n = int64(len(r.Data))
	}
	r.off = int(n)
	return n, nil
}

// FailCloseBowl wraps a bowl: the Close of the n-th entry writer it hands out (1-based) fails with
// ErrInjected after closing the real writer (a disk that reports an error when the file is closed,
// or a checking writer that refuses the last block).
type FailCloseBowl struct {
	bowl.Bowl
	N      int
	opened int
	Fired  bool
}

func (b *FailCloseBowl) GetWriter(i int64) (bowl.EntryWriter, error) {
	w, err := b.Bowl.GetWriter(i)
	if err != nil {
		return nil, err
	}
	b.opened++
	if b.opened == b.N {
		return &failCloseWriter{EntryWriter: w, b: b}, nil
	}
	return w, nil
}

type failCloseWriter struct {
	bowl.EntryWriter
	b *FailCloseBowl
}

func (w *failCloseWriter) Close() error {
	w.EntryWriter.Close()
	w.b.Fired = true
	return ErrInjected
}
