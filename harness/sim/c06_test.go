package sim

import (
	"bytes"
	"context"
	"fmt"
	"github.com/itchio/headway/state"
	"os"
	"path/filepath"
	"testing"

	"github.com/itchio/lake/tlc"
	"github.com/itchio/wharf/archiver"
	"github.com/itchio/wharf/pwr"
	"pgregory.net/rapid"
)

// zipOf archives the pristine build with wharf's own archiver (the healer's source of truth).
func zipOf(dir, zipPath string) {
	var buf bytes.Buffer
	_, err := archiver.CompressZip(&buf, dir, Quiet())
	Must(err, "CompressZip")
	Must(os.WriteFile(zipPath, buf.Bytes(), 0o644), "write zip")
}

// containsSigned: every entry of the signed build exists in got with the signed content (extra
// entries are allowed: the healer does not delete ghosts).
func containsSigned(signed, got Tree) string {
	for _, p := range signed.Paths() {
		se := signed[p]
		ge, ok := got[p]
		if !ok {
			return fmt.Sprintf("%s (%s) is missing after healing", p, se.Kind)
		}
		if ge.Kind != se.Kind {
			return fmt.Sprintf("%s is a %s after healing, expected %s", p, ge.Kind, se.Kind)
		}
		if se.Kind == KFile && !bytes.Equal(se.Data, ge.Data) {
			return fmt.Sprintf("%s has wrong content after healing (len %d vs %d, first diff %d)", p, len(ge.Data), len(se.Data), firstDiff(ge.Data, se.Data))
		}
		if se.Kind == KLink && se.Dest != ge.Dest {
			return fmt.Sprintf("%s points to %q after healing, expected %q", p, ge.Dest, se.Dest)
		}
	}
	return ""
}

// TestC06: healing from an archive restores any damaged directory; healing a valid one changes
// nothing.
func TestC06(t *testing.T) {
	Ev.Rule = "generated builds (nested dirs, symlinks, empty files) x damage sequences of C05 plus subtree-hiding kind swaps, emptied or missing target directory, or no damage; Validate with an archive healer under scheduled interleavings of main / validator worker / per-file relay / aggregator / consumer(healer) / heal worker; non-trivial = damaged; distinct by (build, faults, schedule log)"
	Ev.Component("Validate, ArchiveHealer (Do/heal/healOne), validating pool, wounds aggregation, lake fspool/zippool, arkive zip, ctxcopy", "real")
	Ev.Component("directory being healed (stored-data faults), goroutine schedule, select choice", "simulated")
	Prop(t, "C06", func(rt *rapid.T) {
		signed := GenTree(rt, GenOpts{Links: true, EmptyDirs: true, LowEntropy: true, MaxMid: 300 * KiB}, rapid.Uint64Range(0, 1<<20).Draw(rt, "poolseed"))
		mode := rapid.IntRange(0, 9).Draw(rt, "damagemode") // 0 pristine, 1 empty dir, 2 missing dir, else faults
		var faults []Fault
		if mode > 2 {
			faults = GenFaults(rt, signed, FaultOpts{Content: true, Delete: true, KindSwap: true, Links: true, Special: true, MaxFaults: 6})
		}
		if mode > 2 && rapid.IntRange(0, 11).Draw(rt, "linkedtolonger") == 0 {
			// a file that ends on a block boundary is replaced by a hard link to a longer file that
			// begins with the same bytes (and is looked at first): only its length is wrong
			pb := Bytes(rapid.Uint64().Draw(rt, "hqseed"), rapid.IntRange(1, 3).Draw(rt, "hqblocks")*BlockSize)
			signed["hq/a-long.bin"] = &Entry{Kind: KFile, Data: append(append([]byte{}, pb...), Bytes(5, rapid.SampledFrom([]int{1, 1000, BlockSize, 300 * KiB}).Draw(rt, "hqextra"))...)}
			signed["hq/b-short.bin"] = &Entry{Kind: KFile, Data: pb}
			signed.Normalize()
			faults = append([]Fault{{Kind: "hardlink", Path: "hq/b-short.bin", Dest: "hq/a-long.bin"}}, faults...)
			Ev.Probe("file_replaced_by_hard_link_to_a_longer_file_with_the_same_beginning")
		}
		twinDeep := false
		if mode > 2 && rapid.IntRange(0, 7).Draw(rt, "twins") == 0 {
			// twin subtrees, one of them replaced by a symlink to the other (or to the parent): its
			// entries seem to be there when looked up through the link
			twin := func(root string, seed uint64) {
				signed[root+"/lib.so"] = &Entry{Kind: KFile, Data: Bytes(seed+2, 70001)}
				signed[root+"/lib.so.1"] = &Entry{Kind: KFile, Data: Bytes(seed+2, 70001)}
				signed[root+"/x"] = &Entry{Kind: KFile, Data: Bytes(seed, 1000)}
				signed[root+"/sub/y"] = &Entry{Kind: KFile, Data: Bytes(seed+1, 70000)}
				signed[root+"/sub/emptydir"] = &Entry{Kind: KDir}
				signed[root+"/l"] = &Entry{Kind: KLink, Dest: "x"}
			}
			same := rapid.Bool().Draw(rt, "twinsame")
			if twinDeep = rapid.IntRange(0, 2).Draw(rt, "twindeep") == 0; twinDeep {
				// several directories below a chain of two levels that the container will not list
				twin = func(root string, seed uint64) {
					signed[root+"/m/b/p"] = &Entry{Kind: KFile, Data: Bytes(seed+2, 70001)}
					signed[root+"/m/b/q"] = &Entry{Kind: KFile, Data: Bytes(seed+3, 10)}
					signed[root+"/m/c/r"] = &Entry{Kind: KFile, Data: Bytes(seed+4, 70000)}
					signed[root+"/m/c/s"] = &Entry{Kind: KFile, Data: Bytes(seed+5, 10)}
					signed[root+"/m/d/t"] = &Entry{Kind: KFile, Data: Bytes(seed+6, 5)}
				}
			}
			twin("t1", 5)
			if same {
				twin("t2", 5)
			} else {
				twin("t2", 9)
			}
			signed.Normalize()
			which := rapid.SampledFrom([]string{"t1", "t2", "t1/sub", "t1/lib.so", "t2/lib.so.1"}).Draw(rt, "twinwhich")
			if twinDeep {
				which = rapid.SampledFrom([]string{"t1", "t2", "t1/m"}).Draw(rt, "twindeepwhich")
			}
			// (the last two: a file replaced by a symlink to a file with the very same content)
			dest := map[string]string{"t1": "t2", "t2": "t1", "t1/sub": "../t2/sub", "t1/lib.so": "lib.so.1", "t2/lib.so.1": "../t1/lib.so", "t1/m": "../t2/m"}[which]
			faults = append([]Fault{{Kind: "tolink", Path: which, Dest: dest}}, faults...)
			Ev.Probe("directory_replaced_by_symlink_to_twin_directory")
		}
		spec := drawSched(rt)
		if rapid.Bool().Draw(rt, "starve") {
			spec.Policy = 3
			spec.Starve = rapid.SampledFrom([]string{"pwr.ArchiveHealer", "pwr.ValidatorContext.validate", "main", "pwr.ValidatingPool", "pwr.AggregateWounds"}).Draw(rt, "starvewho")
			if twinDeep && rapid.Bool().Draw(rt, "twinstarvehealer") {
				spec.Starve = "pwr.ArchiveHealer"
			}
		}
		damaged, applied := ApplyFaults(signed, faults)
		switch mode {
		case 1, 2:
			damaged = Tree{}
		}
		dir, cleanup := RunDir()
		defer cleanup()
		pristine := filepath.Join(dir, "signed")
		si := signTree(signed, pristine)
		if twinDeep && rapid.IntRange(0, 3).Draw(rt, "twinimplied") != 0 {
			// the container lists what a walk of a zip archive without directory entries lists
			var kept []*tlc.Dir
			for _, d := range si.Container.Dirs {
				switch d.Path {
				case "t1", "t1/m", "t2", "t2/m":
					continue
				}
				kept = append(kept, d)
			}
			si.Container.Dirs = kept
			Ev.Probe("twin_chain_of_two_implied_directory_levels")
		}
		if rapid.IntRange(0, 2).Draw(rt, "shuffledirs") == 0 {
			shuffleDirs(si, rapid.Uint64().Draw(rt, "shuffleseed"))
		}
		// the caller's consumer may have any subset of its callbacks set
		cons := Quiet()
		switch rapid.IntRange(0, 5).Draw(rt, "consumerkind") {
		case 0:
			cons = &state.Consumer{OnProgressLabel: func(string) {}}
		case 1:
			cons = &state.Consumer{OnMessage: func(string, string) {}}
		case 2:
			cons = &state.Consumer{OnProgress: func(float64) {}}
		}
		// (where the archive lies is nobody's business either)
		zipDir := filepath.Join(dir, rapid.SampledFrom([]string{".", ".", "50% zips", "a b#c"}).Draw(rt, "archivedir"))
		Must(os.MkdirAll(zipDir, 0o755), "mkdir archive dir")
		zipPath := filepath.Join(zipDir, "build.zip")
		zipOf(pristine, zipPath)
		// (the directory's own name is nobody's business: percent signs, spaces, colons)
		target := filepath.Join(dir, rapid.SampledFrom([]string{"target", "target", "target", "100% Orange Juice", "50%", "1:x y", "a#b?c", "Game-1.2.zip", "UPPER.ZIP"}).Draw(rt, "targetname"))
		// ... nor is the way its path is spelled (the string is handed over as it is)
		switch rapid.IntRange(0, 6).Draw(rt, "targetspelling") {
		case 0:
			target = dir + "/./" + filepath.Base(target)
		case 1:
			target = dir + "//" + filepath.Base(target)
		case 2:
			target = target + "/"
		}
		if mode != 2 {
			Must(damaged.Materialize(target), "materialize damaged")
		}
		countFaults(applied)
		if mode == 1 {
			Ev.Fault("stored_emptied_directory", 1)
		}
		if mode == 2 {
			Ev.Fault("stored_missing_directory", 1)
		}
		differs := signed.Diff(damaged) != ""
		before := MustSnapshot(target)

		var verr error
		s := &Sched{Spec: spec, MaxSteps: 400000}
		s.Run(t, func() {
			vctx := &pwr.ValidatorContext{HealPath: "archive," + zipPath, Consumer: cons}
			verr = vctx.Validate(context.Background(), target, si)
		})
		if s.BudgetExceeded {
			return
		}
		what := fmt.Sprintf("faults %v (mode %d)\nsigned %v\nschedule policy %d starve %q pickbias %d", faultStrings(applied), mode, signed.Describe(), spec.Policy, spec.Starve, spec.PickBias)
		if s.Stuck {
			Violation(rt, "C06/stuck", "healing deadlocked: no runnable task\n%s\n%s\ntrace tail:\n%s", what, s.StuckStacks, joinLines(tail(s.Log, 40), 40))
			return
		}
		if s.Panic != "" {
			Violation(rt, "C06/panic", "healing panicked: %s\n%s", s.Panic, what)
			return
		}
		if verr != nil {
			Violation(rt, "C06/heal-error", "Validate with healer returned %v\n%s\ntrace tail:\n%s", trimErr(verr), what, joinLines(tail(s.Log, 30), 30))
			return
		}
		after := MustSnapshot(target)
		if !differs {
			if d := Untouched(before, after); d != "" {
				Violation(rt, "C06/valid-dir-changed", "healing an already valid directory changed it: %s", d)
				return
			}
		}
		if d := containsSigned(signed, after.Tree); d != "" {
			Violation(rt, "C06/not-restored", "%s\n%s\ntrace tail:\n%s", d, what, joinLines(tail(s.Log, 30), 30))
			return
		}
		if aerr := pwr.AssertValid(target, si); aerr != nil {
			Violation(rt, "C06/not-valid-after-heal", "AssertValid after healing: %v\n%s", trimErr(aerr), what)
			return
		}
		Ev.ProbeIf(s.Leaked, "goroutines_left_blocked_after_return")
		Ev.Eval(signed.Hash()^fnv64([]byte(joinLines(faultStrings(applied), 99)), []byte{byte(mode)})^s.LogHash(), differs, func() interface{} {
			return map[string]interface{}{"signed": signed.Describe(), "damage_mode": mode, "faults": faultStrings(applied), "sched_steps": s.Steps, "schedule": s.Trace(40)}
		})
	})
}

func tail(ss []string, n int) []string {
	if len(ss) <= n {
		return ss
	}
	return ss[len(ss)-n:]
}
