package sim

import (
	"fmt"
	"os"
	"path/filepath"
	"strings"
	"testing"

	"pgregory.net/rapid"
)

// TestC02: in-place apply equals fresh apply; the old build is untouched until Commit starts.
func TestC02(t *testing.T) {
	broken := os.Getenv("BOWL_DEBUG_BROKEN_RENAME") == "1"
	Ev.Rule = "generated build pairs with emphasis on path-level relations (swaps, chains, duplicates with/without original, patched-and-renamed, grow/shrink/empty, deleted dirs, symlink changes, kind changes) x {plain, optimized} patches x map iteration orders of the commit phase (sorted / random permutation / reversed) x {rename works, rename fails -> copy+remove}; non-trivial = old and new differ in at least one path-level relation; distinct by (pair, patch kind, map order)"
	Ev.Component("patcher, overlay bowl (GetWriter/Transpose/Commit), overlay writer+applier, rediff", "real")
	Ev.Component("map iteration order of the two transposition loops", "decided by the simulator (instrumented copy)")
	Ev.Component("old-build pool reads (invariant evaluation points), rename failure (BOWL_DEBUG_BROKEN_RENAME)", "simulated")
	Ev.Assume("the overlay bowl reads the old build through its own fspool (no seam): short reads on old files are injected in C14 and, for the fresh bowl, in C01/C07/C09")
	Prop(t, "C02", func(rt *rapid.T) {
		pair := GenPair(rt, GenOpts{Links: true, EmptyDirs: true, KindChange: true, DirFile: true, LowEntropy: true, MaxMid: 200 * KiB, Big: rapid.IntRange(0, 19).Draw(rt, "allowbig") == 0})
		retry := rapid.IntRange(0, 2).Draw(rt, "retry") == 0
		if retry && rapid.IntRange(0, 3).Draw(rt, "periodic") != 0 {
			// a file laid out from two or three distinct blocks, some of them replaced by another of
			// the same blocks in the new build: old and new agree at many shifted offsets
			nb := rapid.IntRange(4, 10).Draw(rt, "periodicblocks")
			var od, nd []byte
			for i := 0; i < nb; i++ {
				a := rapid.IntRange(0, 2).Draw(rt, "periodicold")
				b := a
				if rapid.IntRange(0, 2).Draw(rt, "periodicchange") == 0 {
					b = rapid.IntRange(0, 2).Draw(rt, "periodicnew")
				}
				od = append(od, poolBlock(pair.PoolSeed, a)...)
				nd = append(nd, poolBlock(pair.PoolSeed, b)...)
			}
			pth := rapid.SampledFrom([]string{"0periodic.bin", "a/periodic.bin", "zz/periodic.bin"}).Draw(rt, "periodicpath")
			if canPlace(pair.Old, pth) && canPlace(pair.New, pth) {
				pair.Old[pth] = &Entry{Kind: KFile, Data: od}
				pair.New[pth] = &Entry{Kind: KFile, Data: nd}
				pair.Meta[pth] = FileMeta{From: pth, Op: "blocks replaced by other blocks of the same file"}
				pair.Old.Normalize()
				pair.New.Normalize()
				Ev.Probe("file_of_repeated_blocks_patched_in_place")
			}
		}
		if rapid.IntRange(0, 7).Draw(rt, "hardlinks") == 0 {
			// several names of the old build are one file on disk (hard links): a container lists them
			// as ordinary files of equal content, and the new build changes them independently
			if rapid.Bool().Draw(rt, "hlshape") && canPlace(pair.Old, "hl/lib.so") && canPlace(pair.New, "hl/lib.so") {
				base := Bytes(rapid.Uint64().Draw(rt, "hlseed"), rapid.SampledFrom([]int{1000, BlockSize, 150 * KiB}).Draw(rt, "hlsize"))
				ed := append([]byte{}, base...)
				copy(ed[len(ed)/2:], []byte("patched"))
				pair.Old["hl/lib.so"] = &Entry{Kind: KFile, Data: base}
				pair.Old["hl/lib.so.1"] = &Entry{Kind: KFile, Data: base, HardTo: "hl/lib.so"}
				switch rapid.IntRange(0, 3).Draw(rt, "hlchange") {
				case 0: // the first name is patched, the second stays
					pair.New["hl/lib.so"], pair.New["hl/lib.so.1"] = &Entry{Kind: KFile, Data: ed}, &Entry{Kind: KFile, Data: base}
				case 1: // the other way round
					pair.New["hl/lib.so"], pair.New["hl/lib.so.1"] = &Entry{Kind: KFile, Data: base}, &Entry{Kind: KFile, Data: ed}
				case 2: // one name gets the content of another old file, the other stays
					pair.Old["hl/other.bin"] = &Entry{Kind: KFile, Data: Bytes(77, len(base)+100)}
					pair.New["hl/lib.so"], pair.New["hl/lib.so.1"] = &Entry{Kind: KFile, Data: pair.Old["hl/other.bin"].Data}, &Entry{Kind: KFile, Data: base}
				default: // one name becomes executable, the other does not
					pair.New["hl/lib.so"], pair.New["hl/lib.so.1"] = &Entry{Kind: KFile, Data: base, Exec: true}, &Entry{Kind: KFile, Data: base}
				}
				pair.Old.Normalize()
				pair.New.Normalize()
			} else if fs := pair.Old.Files(); len(fs) >= 2 {
				a := fs[rapid.IntRange(0, len(fs)-1).Draw(rt, "hla")]
				b := fs[rapid.IntRange(0, len(fs)-1).Draw(rt, "hlb")]
				if a != b && pair.Old[a].HardTo == "" && pair.Old[b].HardTo == "" && !pair.Old.isHardLinkTarget(b) {
					pair.Old[b] = &Entry{Kind: KFile, Data: pair.Old[a].Data, Exec: pair.Old[a].Exec, HardTo: a}
				}
			}
			Ev.Probe("old_build_with_hard_linked_files")
		}
		dir, cleanup := RunDir()
		defer cleanup()
		oldDir, newDir := filepath.Join(dir, "old"), filepath.Join(dir, "new")
		inDir, stage := filepath.Join(dir, "inplace"), filepath.Join(dir, "stage")
		Must(pair.Old.Materialize(oldDir), "materialize old")
		Must(pair.New.Materialize(newDir), "materialize new")
		Must(pair.Old.Materialize(inDir), "materialize inplace")
		patch, desc, fail := genPatch(rt, oldDir, newDir, true)
		if fail != "" {
			Violation(rt, "C02/patch-production", "%s", fail)
			return
		}
		spec := drawSched(rt)
		every := rapid.IntRange(1, 40).Draw(rt, "snapshot_every")

		// sometimes the stage folder is not empty: an earlier in-place application of some other patch
		// was abandoned before Commit and left its staged files behind (longer ones, here)
		if rapid.IntRange(0, 5).Draw(rt, "stalestage") == 0 {
			stale := Tree{}
			for _, pth := range pair.New.Files() {
				if oe, ok := pair.Old[pth]; ok && oe.Kind != KFile {
					continue
				}
				stale[pth] = &Entry{Kind: KFile, Data: Bytes(fnv64([]byte(pth)), len(pair.New[pth].Data)+1+int(fnv64([]byte(pth))%5000))}
			}
			ok := true
			for pth := range stale {
				for d := filepath.Dir(pth); d != "." && d != "/"; d = filepath.Dir(d) {
					if _, isFile := stale[d]; isFile {
						ok = false
					}
				}
			}
			if ok && len(stale) > 0 {
				Must(stale.Normalize().Materialize(stage), "materialize stale stage")
				Ev.Fault("stale_files_in_stage_folder", len(stale.Files()))
			}
		}
		before := MustSnapshot(inDir)
		var inv string
		reads := 0
		s := &Sched{Spec: spec, MaxSteps: 100000}
		var ar *ApplyResult
		firstCut := 0
		if retry && len(patch) > 40 {
			// a first attempt dies on a patch that ends early (download cut short); the application is
			// then run again from the start with the same bowl
			firstCut = rapid.IntRange(20, len(patch)-1).Draw(rt, "firstcut")
		}
		s.Run(t, func() {
			ar = ApplyInPlace(patch, inDir, stage, ApplyOpts{
				FirstAttemptCut: firstCut,
				OnPool: func(p *Pool) {
					p.OnRead = func(ev ReadEvent) {
						reads++
						if inv == "" && reads%every == 0 {
							if d := Untouched(before, MustSnapshot(inDir)); d != "" {
								inv = fmt.Sprintf("during patching (old-build read #%d): %s", reads, d)
							}
						}
					}
				},
				BeforeCommit: func() string { return Untouched(before, MustSnapshot(inDir)) },
			})
		})
		if s.BudgetExceeded {
			return
		}
		if s.Stuck || s.Panic != "" || ar == nil {
			Violation(rt, "C02/stuck-or-panic", "in-place apply: stuck=%v panic=%s", s.Stuck, s.Panic)
			return
		}
		if ar.Panic != "" {
			Violation(rt, "C02/panic", "in-place apply panicked at %s: %s (patch %s)", ar.Stage, ar.Panic, desc)
			return
		}
		if inv != "" {
			Violation(rt, "C02/old-build-touched-before-commit", "%s (patch %s)\nops %v", inv, desc, pair.Ops)
			return
		}
		if ar.Stage == "first-attempt-accepted-truncated-patch" {
			// the cut only removed bytes the patcher never reads (compressor trailer): there was no failed
			// attempt to retry after
			Ev.Probe("truncated_patch_applied_without_error(cut_in_trailer)")
			return
		}
		if ar.Invariant != "" {
			Violation(rt, "C02/old-build-touched-before-commit", "right before Commit: %s (patch %s)\nops %v", ar.Invariant, desc, pair.Ops)
			return
		}
		shapes := pair.InPlaceShapes()
		if ar.Err != nil {
			class := "C02/apply-error"
			if ar.Stage == "commit" {
				for c, paths := range shapes {
					if !mentionsAny(ar.Err.Error(), paths) {
						continue
					}
					if c == "C02/dir-to-file-commit" && !dirToFileKnownFailure(ar.Err.Error(), pair, paths) {
						continue
					}
					class = c
				}
			}
			Violation(rt, class, "in-place apply failed at %s: %+v (patch %s, maporder %d, broken rename %v)\nops %v", ar.Stage, trimErr(ar.Err), desc, spec.MapOrder, broken, pair.Ops)
			return
		}
		got := MustSnapshot(inDir).Tree
		if d := pair.New.Diff(got); d != "" {
			class := "C02/wrong-output"
			if paths, ok := shapes["C02/kindchange-destroys-transposition-source"]; ok && onlyMentions(pair.New, got, paths) {
				class = "C02/kindchange-destroys-transposition-source"
			}
			Violation(rt, class, "directory after Commit differs from the new build: %s (patch %s, maporder %d, broken rename %v)\nops %v", d, desc, spec.MapOrder, broken, pair.Ops)
			return
		}
		if d := pair.New.DiffExec(got); d != "" {
			Violation(rt, "C02/wrong-mode", "directory after Commit differs from the new build in permission bits: %s (patch %s)\nops %v", d, desc, pair.Ops)
			return
		}
		dirfile := len(pair.DirFile) > 0
		for _, l := range s.Log {
			if strings.HasPrefix(l, "perm ") {
				Ev.Probe("map_order_decided")
				break
			}
		}
		Ev.ProbeIf(broken, "rename_failure_injected_runs")
		Ev.ProbeIf(ar.FirstRan, "retried_on_the_same_bowl_after_a_failed_first_attempt")
		if ar.FirstRan {
			Ev.Fault("patch_truncated_first_attempt", 1)
		}
		Ev.ProbeIf(pair.KindChange, "symlink_kind_change")
		Ev.ProbeIf(dirfile, "dirfile_kind_change_passed")
		rel := false
		for _, m := range pair.Meta {
			if m.Op != "keep" && m.Op != "add" {
				rel = true
			}
		}
		Ev.Eval(pair.Hash()^fnv64([]byte(desc), []byte{byte(spec.MapOrder)}, []byte(fmt.Sprint(broken, spec.Seed*uint64(spec.MapOrder&1)))), rel, func() interface{} {
			m := pair.Sample()
			m["patch"], m["map_order"], m["broken_rename"], m["invariant_checks"] = desc, spec.MapOrder, broken, reads/every+1
			return m
		})
	})
}

func trimErr(err error) string { return trunc(fmt.Sprintf("%v", err), 600) }

// dirFileError: the error names one of the kind-changed paths.
func dirFileError(err error, paths []string) bool {
	return mentionsAny(err.Error(), paths)
}

func mentionsAny(s string, paths []string) bool {
	for _, p := range paths {
		if strings.Contains(s, "/"+p) || strings.Contains(s, p+" ") || strings.Contains(s, p+"/") || strings.HasSuffix(s, p) {
			return true
		}
	}
	return false
}

// onlyMentions reports whether every path at which a and b differ is one of paths (or lies
// under one of them).
func onlyMentions(a, b Tree, paths []string) bool {
	in := func(q string) bool {
		for _, p := range paths {
			if q == p || Under(q, p) {
				return true
			}
		}
		return false
	}
	for q, ea := range a {
		eb, ok := b[q]
		if !ok || ea.Kind != eb.Kind || string(ea.Data) != string(eb.Data) || ea.Dest != eb.Dest {
			if !in(q) {
				return false
			}
		}
	}
	for q := range b {
		if _, ok := a[q]; !ok && !in(q) {
			return false
		}
	}
	return true
}

// dirToFileKnownFailure narrows the known finding C02/dir-to-file-commit to the two ways the
// unchanged code fails: ENOTEMPTY while the old directory still holds entries, or EISDIR when the
// path is the destination of a copied transposition (its new content is some old file's content).
// A directory that is empty when its replacement is moved in from the stage folder is handled
// correctly by the unchanged code; a failure there is a new violation.
func dirToFileKnownFailure(errText string, pair *Pair, paths []string) bool {
	if strings.Contains(errText, "directory not empty") {
		return true
	}
	if !strings.Contains(errText, "is a directory") {
		return false
	}
	for _, p := range paths {
		if !mentionsAny(errText, []string{p}) {
			continue
		}
		ne := pair.New[p]
		if ne == nil || ne.Kind != KFile || len(ne.Data) == 0 {
			continue
		}
		for _, oe := range pair.Old {
			if oe.Kind == KFile && string(oe.Data) == string(ne.Data) {
				return true
			}
		}
	}
	return false
}

// canPlace: pth is free in t and every ancestor of it is absent or a directory.
func canPlace(t Tree, pth string) bool {
	if _, ok := t[pth]; ok {
		return false
	}
	for d := filepath.Dir(pth); d != "." && d != "/"; d = filepath.Dir(d) {
		if e, ok := t[d]; ok && e.Kind != KDir {
			return false
		}
	}
	return true
}
