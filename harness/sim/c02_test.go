package sim

import (
	"fmt"
	"os"
	"path/filepath"
	"strings"
	"testing"

	"pgregory.net/rapid"
)

// TestC02: in-place apply equals fresh apply; the old build is untouched until Commit starts.
func TestC02(t *testing.T) {
	broken := os.Getenv("BOWL_DEBUG_BROKEN_RENAME") == "1"
	Ev.Rule = "generated build pairs with emphasis on path-level relations (swaps, chains, duplicates with/without original, patched-and-renamed, grow/shrink/empty, deleted dirs, symlink changes, kind changes) x {plain, optimized} patches x map iteration orders of the commit phase (sorted / random permutation / reversed) x {rename works, rename fails -> copy+remove}; non-trivial = old and new differ in at least one path-level relation; distinct by (pair, patch kind, map order)"
	Ev.Component("patcher, overlay bowl (GetWriter/Transpose/Commit), overlay writer+applier, rediff", "real")
	Ev.Component("map iteration order of the two transposition loops", "decided by the simulator (instrumented copy)")
	Ev.Component("old-build pool reads (invariant evaluation points), rename failure (BOWL_DEBUG_BROKEN_RENAME)", "simulated")
	Ev.Assume("overlay writer reads the old file through a file-like reader (short only at EOF): no short reads injected on the old build")
	Prop(t, "C02", func(rt *rapid.T) {
		pair := GenPair(rt, GenOpts{Links: true, EmptyDirs: true, KindChange: true, DirFile: true, LowEntropy: true, MaxMid: 200 * KiB, Big: rapid.IntRange(0, 19).Draw(rt, "allowbig") == 0})
		dir, cleanup := RunDir()
		defer cleanup()
		oldDir, newDir := filepath.Join(dir, "old"), filepath.Join(dir, "new")
		inDir, stage := filepath.Join(dir, "inplace"), filepath.Join(dir, "stage")
		Must(pair.Old.Materialize(oldDir), "materialize old")
		Must(pair.New.Materialize(newDir), "materialize new")
		Must(pair.Old.Materialize(inDir), "materialize inplace")
		patch, desc, fail := genPatch(rt, oldDir, newDir, true)
		if fail != "" {
			Violation(rt, "C02/patch-production", "%s", fail)
			return
		}
		spec := drawSched(rt)
		every := rapid.IntRange(1, 40).Draw(rt, "snapshot_every")

		before := MustSnapshot(inDir)
		var inv string
		reads := 0
		s := &Sched{Spec: spec, MaxSteps: 100000}
		var ar *ApplyResult
		s.Run(t, func() {
			ar = ApplyInPlace(patch, inDir, stage, ApplyOpts{
				OnPool: func(p *Pool) {
					p.OnRead = func(ev ReadEvent) {
						reads++
						if inv == "" && reads%every == 0 {
							if d := Untouched(before, MustSnapshot(inDir)); d != "" {
								inv = fmt.Sprintf("during patching (old-build read #%d): %s", reads, d)
							}
						}
					}
				},
				BeforeCommit: func() string { return Untouched(before, MustSnapshot(inDir)) },
			})
		})
		if s.BudgetExceeded {
			return
		}
		if s.Stuck || s.Panic != "" || ar == nil {
			Violation(rt, "C02/stuck-or-panic", "in-place apply: stuck=%v panic=%s", s.Stuck, s.Panic)
			return
		}
		if ar.Panic != "" {
			Violation(rt, "C02/panic", "in-place apply panicked at %s: %s (patch %s)", ar.Stage, ar.Panic, desc)
			return
		}
		if inv != "" {
			Violation(rt, "C02/old-build-touched-before-commit", "%s (patch %s)\nops %v", inv, desc, pair.Ops)
			return
		}
		if ar.Invariant != "" {
			Violation(rt, "C02/old-build-touched-before-commit", "right before Commit: %s (patch %s)\nops %v", ar.Invariant, desc, pair.Ops)
			return
		}
		shapes := pair.InPlaceShapes()
		if ar.Err != nil {
			class := "C02/apply-error"
			if ar.Stage == "commit" {
				for c, paths := range shapes {
					if mentionsAny(ar.Err.Error(), paths) {
						class = c
					}
				}
			}
			Violation(rt, class, "in-place apply failed at %s: %+v (patch %s, maporder %d, broken rename %v)\nops %v", ar.Stage, trimErr(ar.Err), desc, spec.MapOrder, broken, pair.Ops)
			return
		}
		got := MustSnapshot(inDir).Tree
		if d := pair.New.Diff(got); d != "" {
			class := "C02/wrong-output"
			if paths, ok := shapes["C02/kindchange-destroys-transposition-source"]; ok && onlyMentions(pair.New, got, paths) {
				class = "C02/kindchange-destroys-transposition-source"
			}
			Violation(rt, class, "directory after Commit differs from the new build: %s (patch %s, maporder %d, broken rename %v)\nops %v", d, desc, spec.MapOrder, broken, pair.Ops)
			return
		}
		dirfile := len(pair.DirFile) > 0
		for _, l := range s.Log {
			if strings.HasPrefix(l, "perm ") {
				Ev.Probe("map_order_decided")
				break
			}
		}
		Ev.ProbeIf(broken, "rename_failure_injected_runs")
		Ev.ProbeIf(pair.KindChange, "symlink_kind_change")
		Ev.ProbeIf(dirfile, "dirfile_kind_change_passed")
		rel := false
		for _, m := range pair.Meta {
			if m.Op != "keep" && m.Op != "add" {
				rel = true
			}
		}
		Ev.Eval(pair.Hash()^fnv64([]byte(desc), []byte{byte(spec.MapOrder)}, []byte(fmt.Sprint(broken, spec.Seed*uint64(spec.MapOrder&1)))), rel, func() interface{} {
			m := pair.Sample()
			m["patch"], m["map_order"], m["broken_rename"], m["invariant_checks"] = desc, spec.MapOrder, broken, reads/every+1
			return m
		})
	})
}

func trimErr(err error) string { return trunc(fmt.Sprintf("%v", err), 600) }

// dirFileError: the error names one of the kind-changed paths.
func dirFileError(err error, paths []string) bool {
	return mentionsAny(err.Error(), paths)
}

func mentionsAny(s string, paths []string) bool {
	for _, p := range paths {
		if strings.Contains(s, "/"+p) || strings.Contains(s, p+" ") || strings.Contains(s, p+"/") || strings.HasSuffix(s, p) {
			return true
		}
	}
	return false
}

// onlyMentions reports whether every path at which a and b differ is one of paths (or lies
// under one of them).
func onlyMentions(a, b Tree, paths []string) bool {
	in := func(q string) bool {
		for _, p := range paths {
			if q == p || Under(q, p) {
				return true
			}
		}
		return false
	}
	for q, ea := range a {
		eb, ok := b[q]
		if !ok || ea.Kind != eb.Kind || string(ea.Data) != string(eb.Data) || ea.Dest != eb.Dest {
			if !in(q) {
				return false
			}
		}
	}
	for q := range b {
		if _, ok := a[q]; !ok && !in(q) {
			return false
		}
	}
	return true
}
