package sim

import (
	"fmt"
	"path/filepath"
	"testing"

	"github.com/itchio/wharf/pwr"
)

// TestC03BigGap: a consumer that asks to save once, then not for a long stretch of the patch, then
// again. The source half of the checkpoint it is then given was taken at the first request, the
// reader half at the second: tens of megabytes of stream lie between the two. Restarting from it
// must give the uninterrupted result.
func TestC03BigGap(t *testing.T) {
	Ev.Property = "C03"
	ft := &fatalT{t: t}
	for ci, comp := range []*pwr.CompressionSettings{{Algorithm: pwr.CompressionAlgorithm_NONE}, {Algorithm: pwr.CompressionAlgorithm_GZIP, Quality: 1}} {
		old, nw := Tree{}, Tree{}
		// a new 34 MiB file (DATA ops only), then a file with a long series of small operations
		nw["a-big.bin"] = &Entry{Kind: KFile, Data: Bytes(uint64(41+ci), 34*MiB+12345)}
		base := Bytes(uint64(51+ci), 600*KiB)
		old["z-tail.bin"] = &Entry{Kind: KFile, Data: base}
		ed := append([]byte{}, base...)
		for o := 30000; o < len(ed); o += 90000 {
			copy(ed[o:], Bytes(uint64(o), 700))
		}
		nw["z-tail.bin"] = &Entry{Kind: KFile, Data: ed}
		old.Normalize()
		nw.Normalize()
		dir, cleanup := RunDir()
		oldDir, newDir := filepath.Join(dir, "old"), filepath.Join(dir, "new")
		Must(old.Materialize(oldDir), "old")
		Must(nw.Materialize(newDir), "new")
		dr := Diff(oldDir, newDir, comp, DiffSeams{})
		if dr.Err != nil || dr.Panic != "" {
			cleanup()
			Violation(ft, "C03/patch-production", "WritePatch failed: %v %s", dr.Err, dr.Panic)
			return
		}
		cfg := fmt.Sprintf("34 MiB new file then an edited file, %s, save requested at the first operation and again after the big file", CompString(comp))
		// ask at the very first call, stay quiet while the big file goes by (about 2 MiB per call), then always ask
		should := func(call int) bool { return call == 1 || call >= 13 }
		out := filepath.Join(dir, "out")
		sc := &scriptSC{Should: should, StopAt: -1, DiskDir: out}
		b := &session{Patch: dr.Patch, OldDir: oldDir, OutDir: out, SC: sc}
		b.run()
		if b.Panic != "" || b.ResumeErr != nil {
			cleanup()
			Violation(ft, "C03/saving-run", "apply with a saving consumer failed at %s: %v %s (%s)", b.Stage, b.ResumeErr, b.Panic, cfg)
			return
		}
		if sc.EncErr != nil {
			cleanup()
			Violation(ft, "C03/checkpoint-not-serializable", "gob cannot encode a checkpoint: %v (%s)", sc.EncErr, cfg)
			return
		}
		if len(sc.Saves) == 0 {
			if comp.Algorithm == pwr.CompressionAlgorithm_NONE {
				cleanup()
				Violation(ft, "C03/no-checkpoint-offered", "no checkpoint was offered although the consumer asked at every operation of a multi-operation series (%s)", cfg)
				return
			}
			cleanup()
			continue
		}
		restarts := 0
		for k := 0; k < len(sc.Saves) && k < 3; k++ {
			ck := sc.Saves[k]
			rout := filepath.Join(dir, fmt.Sprintf("re%d", k))
			Must(ck.Disk.Tree.Materialize(rout), "crash state")
			se := &session{Patch: dr.Patch, OldDir: oldDir, OutDir: rout, Ck: ck.Gob, Slice: NewSlicer(k, uint64(k)+7)}
			se.run()
			restarts++
			Ev.Fault("crash_restart", 1)
			if se.Panic != "" {
				cleanup()
				Violation(ft, "C03/resume-panic", "restart from checkpoint %d (%s): panicked at %s: %s (%s)", k, ck.Desc, se.Stage, se.Panic, cfg)
				return
			}
			if se.ResumeErr != nil {
				cleanup()
				Violation(ft, "C03/resume-error", "restart from checkpoint %d (%s): resumed run failed at %s: %v (%s)", k, ck.Desc, se.Stage, trimErr(se.ResumeErr), cfg)
				return
			}
			if err, p := se.commit(); err != nil || p != "" {
				cleanup()
				Violation(ft, "C03/resume-commit-error", "restart from checkpoint %d (%s): Commit failed: %v %s (%s)", k, ck.Desc, err, p, cfg)
				return
			}
			if d := nw.Diff(MustSnapshot(rout).Tree); d != "" {
				cleanup()
				Violation(ft, "C03/resume-wrong-output", "restart from checkpoint %d (%s): result differs from the new build: %s (%s)", k, ck.Desc, d, cfg)
				return
			}
		}
		first := sc.Saves[0].Desc
		Ev.Eval(fnv64([]byte(cfg)), restarts > 0, func() interface{} {
			return map[string]interface{}{"config": cfg, "checkpoints_offered": len(sc.Saves), "first_checkpoint": first, "restarts": restarts}
		})
		cleanup()
	}
}
