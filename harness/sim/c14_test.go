package sim

import (
	"bytes"
	"fmt"
	"io"
	"testing"

	"github.com/itchio/savior/seeksource"
	"github.com/itchio/wharf/pwr/overlay"
	"pgregory.net/rapid"
)

// memFile is a file-like WriteSeeker without truncation (like an *os.File reopened without
// O_TRUNC): writes overwrite or extend, seeking past the end and writing leaves a hole of zeros.
type memFile struct {
	b   []byte
	pos int64
}

func (m *memFile) Write(p []byte) (int, error) {
	end := m.pos + int64(len(p))
	if end > 1<<32 || end < 0 {
		// like a real file: writing at an absurd offset fails (EFBIG), it does not crash
		return 0, fmt.Errorf("memFile: file too large (write at offset %d)", m.pos)
	}
	if end > int64(len(m.b)) {
		m.b = append(m.b, make([]byte, end-int64(len(m.b)))...)
	}
	copy(m.b[m.pos:end], p)
	m.pos = end
	return len(p), nil
}

func (m *memFile) Seek(off int64, whence int) (int64, error) {
	switch whence {
	case io.SeekStart:
		m.pos = off
	case io.SeekCurrent:
		m.pos += off
	case io.SeekEnd:
		m.pos = int64(len(m.b)) + off
	}
	if m.pos < 0 {
		return 0, fmt.Errorf("negative seek")
	}
	return m.pos, nil
}

var runLens = []int{1, 2, 100, 4 * KiB, 8*KiB - 1, 8 * KiB, 8*KiB + 1, 8*KiB + 2, 16 * KiB, 64 * KiB, 128*KiB - 8*KiB - 1, 128*KiB - 8*KiB, 128*KiB - 1, 128 * KiB, 128*KiB + 1, 200 * KiB}

// genOverlayPair draws (old,new): new is built from runs equal to old at the same offset and runs
// that differ, with run lengths around the 8 KiB skip threshold and the 128 KiB window.
func genOverlayPair(rt *rapid.T) (old, nw []byte, desc []string) {
	oldLen := rapid.SampledFrom([]int{0, 1, 1000, 8*KiB + 1, 100 * KiB, 128*KiB - 1, 128 * KiB, 128*KiB + 1, 256 * KiB, 300 * KiB, 640*KiB + 5}).Draw(rt, "oldlen")
	old = Bytes(rapid.Uint64().Draw(rt, "oldseed"), oldLen)
	if oldLen > 128*KiB && rapid.IntRange(0, 4).Draw(rt, "oldperiodic") == 0 {
		for i := 128 * KiB; i < oldLen; i++ {
			old[i] = old[i-128*KiB]
		}
	}
	target := rapid.SampledFrom([]int{0, 1, oldLen / 2, oldLen - 1, oldLen, oldLen + 1, oldLen + 9*KiB, oldLen + 200*KiB, 3 * 128 * KiB}).Draw(rt, "newlen")
	if target < 0 {
		target = 0
	}
	if target > 700*KiB {
		target = 700 * KiB
	}
	if rapid.IntRange(0, 5).Draw(rt, "padding") == 0 {
		// runs of a constant byte (zero padding) whose extent differs between old and new: content that
		// matches the old file at shifted offsets
		a := rapid.SampledFrom([]int{100, 8*KiB + 1, 50 * KiB, 100 * KiB, 200 * KiB}).Draw(rt, "padold")
		b := a + rapid.SampledFrom([]int{-100, -1, 1, 100, 5000, 9000}).Draw(rt, "paddelta")
		if b < 0 {
			b = 0
		}
		tailA := Bytes(rapid.Uint64().Draw(rt, "padseedA"), rapid.IntRange(0, 150*KiB).Draw(rt, "padtailA"))
		tailB := Bytes(rapid.Uint64().Draw(rt, "padseedB"), rapid.IntRange(0, 150*KiB).Draw(rt, "padtailB"))
		if rapid.Bool().Draw(rt, "padsametail") {
			tailB = tailA
		}
		fill := rapid.SampledFrom([]byte{0, 0, 0xAA, 0x01}).Draw(rt, "padbyte")
		pa, pb := make([]byte, a), make([]byte, b)
		for i := range pa {
			pa[i] = fill
		}
		for i := range pb {
			pb[i] = fill
		}
		if rapid.Bool().Draw(rt, "padgrows") {
			// a file of one constant byte that grows past its old end
			grow := rapid.SampledFrom([]int{1, 8 * KiB, 8*KiB + 1, 20 * KiB, 130 * KiB}).Draw(rt, "padgrow")
			nb := make([]byte, a+grow)
			for i := range nb {
				nb[i] = fill
			}
			return pa, nb, []string{fmt.Sprintf("fill%02x(%d) -> fill(%d)", fill, a, a+grow)}
		}
		return append(pa, tailA...), append(pb, tailB...), []string{fmt.Sprintf("fill%02x(%d)+tail(%d) -> fill(%d)+tail(%d)", fill, a, len(tailA), b, len(tailB))}
	}
	if len(old) >= 128*KiB && target > len(old) && rapid.IntRange(0, 3).Draw(rt, "periodic") == 0 {
		// new = old followed by a repetition of old's last window(s): the data past old's EOF equals
		// what the previous window of the old file held
		nw = append([]byte{}, old...)
		for len(nw) < target {
			nw = append(nw, old[len(old)-128*KiB:]...)
		}
		if rapid.Bool().Draw(rt, "periodiccut") {
			nw = nw[:target]
		}
		return old, nw, []string{fmt.Sprintf("old(%d) + repeated last window up to %d", len(old), len(nw))}
	}
	same := rapid.Bool().Draw(rt, "startsame")
	for len(nw) < target {
		l := rapid.SampledFrom(runLens).Draw(rt, "runlen")
		if len(nw)+l > target {
			l = target - len(nw)
		}
		off := len(nw)
		if same && off < len(old) {
			end := off + l
			if end > len(old) {
				end = len(old)
			}
			nw = append(nw, old[off:end]...)
			desc = append(desc, fmt.Sprintf("same%d", end-off))
		} else {
			seg := make([]byte, l)
			for i := range seg {
				if off+i < len(old) {
					seg[i] = old[off+i] ^ 0x55 // differs at every byte
				} else {
					seg[i] = byte(i*7 + off)
				}
			}
			nw = append(nw, seg...)
			desc = append(desc, fmt.Sprintf("diff%d", l))
		}
		same = !same
	}
	return
}

// TestC14: an overlay turns the old file into the new file, whatever the write pattern, across
// flushes and resumed sessions with stale bytes left behind.
func TestC14(t *testing.T) {
	Ev.Rule = "generated (old,new) with equal/differing runs sized around the 8 KiB skip threshold and the 128 KiB window, new shorter/longer than old; generated write slicing (1 B .. 300 KiB), flush points and session crashes (extra writes after the flush left as stale, possibly torn bytes; new writer from the reported offsets); non-trivial = at least one SKIP op emitted or at least one resumed session; distinct by (old,new,write script)"
	Ev.Component("overlay.NewOverlayWriter (Write/Flush/Finalize/ReadOffset/OverlayOffset), OverlayPatchContext.Patch", "real")
	Ev.Component("overlay output file (no-truncate memory file), session crash/restart, write slicing", "simulated")
	Ev.Assume("the output is a file-like WriteSeeker (as *os.File); the old-file reader may return short reads at any time")
	Prop(t, "C14", func(rt *rapid.T) {
		old, nw, runs := genOverlayPair(rt)
		shiftD := 0
		if rapid.IntRange(0, 7).Draw(rt, "shifted") == 0 && len(old) > 20*KiB {
			// new = d fresh bytes + old: every later window equals the old file d bytes earlier
			shiftD = rapid.SampledFrom([]int{1, 100, 4096, 8192}).Draw(rt, "shiftd")
			nw = append(Bytes(uint64(shiftD)+9, shiftD), old...)
			runs = []string{fmt.Sprintf("fresh%d + old", shiftD)}
		}
		sliceMode := rapid.IntRange(0, 3).Draw(rt, "wslice")
		sliceSeed := rapid.Uint64().Draw(rt, "wsliceseed")
		flushEvery := rapid.IntRange(0, 12).Draw(rt, "flushevery") // 0 = never
		crashEvery := rapid.IntRange(0, 4).Draw(rt, "crashevery")  // 0 = never; else every n-th flush crashes
		rng := NewRng(sliceSeed)

		out := &memFile{}
		sessions, crashes, staleTotal := 1, 0, 0
		oldSlicing := rapid.IntRange(0, 4).Draw(rt, "oldslicing")
		oldSliceSeed := rapid.Uint64().Draw(rt, "oldsliceseed")
		oldEOFWith := rapid.Bool().Draw(rt, "oldeofwith")
		newWriter := func(readOff, ovOff int64) (overlay.OverlayWriter, error) {
			// the old file comes from a pool reader: short reads are allowed at any time
			var r io.ReadSeeker = bytes.NewReader(old)
			if oldSlicing > 0 {
				r = NewSliceReader(old, oldSlicing, oldSliceSeed, false, oldEOFWith)
				Ev.Probe("old_file_reader_returns_short_reads")
			}
			r.Seek(readOff, io.SeekStart)
			out.Seek(ovOff, io.SeekStart)
			return overlay.NewOverlayWriter(r, readOff, out, ovOff)
		}
		ow, err := newWriter(0, 0)
		if err != nil {
			Violation(rt, "C14/new-writer", "NewOverlayWriter: %v", err)
			return
		}
		fed := 0
		nwrites, flushes := 0, 0
		var script []string
		if shiftD > 0 && shiftD <= len(nw) {
			// the first shiftD bytes (what was inserted in front of the old content) are written and
			// flushed on their own; the same session then continues
			if _, werr := ow.Write(nw[:shiftD]); werr != nil {
				Violation(rt, "C14/write-failed", "Write(%d): %v", shiftD, werr)
				return
			}
			if ferr := ow.Flush(); ferr != nil {
				Violation(rt, "C14/flush-failed", "Flush: %v", ferr)
				return
			}
			fed = shiftD
			script = append(script, fmt.Sprintf("w%d", shiftD), "flush(same session continues)")
			Ev.Probe("small_flush_then_same_session_over_shifted_content")
		}
		if rapid.IntRange(0, 5).Draw(rt, "flushatzero") == 0 {
			// a checkpoint before the first byte of content, then a new session from the reported offsets
			if ferr := ow.Flush(); ferr != nil {
				Violation(rt, "C14/flush-failed", "Flush before any content: %v", ferr)
				return
			}
			ro, oo := ow.ReadOffset(), ow.OverlayOffset()
			if ro != int64(fed) {
				Violation(rt, "C14/read-offset-after-flush", "after Flush with %d bytes of new content written ReadOffset is %d", fed, ro)
				return
			}
			script = append(script, fmt.Sprintf("flush@0(ro=%d,oo=%d)+resume", ro, oo))
			sessions++
			ow, err = newWriter(ro, oo)
			if err != nil {
				Violation(rt, "C14/resume-writer", "NewOverlayWriter(%d,%d): %v", ro, oo, err)
				return
			}
			Ev.ProbeIf(fed == 0, "session_resumed_before_first_byte")
		}
		nextLen := func(rem int) int {
			var l int
			switch sliceMode {
			case 0:
				l = rem
			case 1:
				l = 1 + rng.Intn(300*KiB)
			case 2:
				l = []int{1, 2, 8 * KiB, 8*KiB + 1, 128*KiB - 1, 128 * KiB, 128*KiB + 1, 300 * KiB}[rng.Intn(8)]
			default:
				l = 1 + rng.Intn(5000)
			}
			if l > rem {
				l = rem
			}
			return l
		}
		for fed < len(nw) {
			l := nextLen(len(nw) - fed)
			n, werr := ow.Write(nw[fed : fed+l])
			if werr != nil || n != l {
				Violation(rt, "C14/write-failed", "Write(%d bytes at %d) = %d, %v", l, fed, n, werr)
				return
			}
			fed += l
			nwrites++
			if len(script) < 40 {
				script = append(script, fmt.Sprintf("w%d", l))
			}
			if flushEvery > 0 && nwrites%flushEvery == 0 {
				if ferr := ow.Flush(); ferr != nil {
					Violation(rt, "C14/flush-failed", "Flush: %v", ferr)
					return
				}
				flushes++
				ro, oo := ow.ReadOffset(), ow.OverlayOffset()
				if ro != int64(fed) {
					Violation(rt, "C14/read-offset-after-flush", "after Flush ReadOffset is %d but %d bytes of new content were written", ro, fed)
					return
				}
				if len(script) < 40 {
					script = append(script, "flush")
				}
				if crashEvery > 0 && flushes%crashEvery == 0 {
					// the session goes on a little and then dies: its later output stays in the file
					extra := 0
					for i := 0; i < 1+rng.Intn(3) && fed+extra < len(nw); i++ {
						l2 := nextLen(len(nw) - fed - extra)
						ow.Write(nw[fed+extra : fed+extra+l2])
						extra += l2
					}
					if rng.Intn(2) == 0 {
						ow.Flush()
					}
					stale := int64(len(out.b)) - oo
					if stale > 0 && rng.Intn(2) == 0 {
						// torn: only part of the stale bytes reached the disk
						out.b = out.b[:oo+int64(rng.Intn(int(stale)+1))]
					}
					staleTotal += len(out.b) - int(oo)
					crashes++
					sessions++
					if len(script) < 40 {
						script = append(script, fmt.Sprintf("crash(stale=%d)", int64(len(out.b))-oo))
					}
					ow, err = newWriter(ro, oo)
					if err != nil {
						Violation(rt, "C14/resume-writer", "NewOverlayWriter(%d,%d): %v", ro, oo, err)
						return
					}
					// feeding restarts at the source offset matching the checkpoint (= fed)
				}
			}
		}
		if ferr := ow.Finalize(); ferr != nil {
			Violation(rt, "C14/finalize-failed", "Finalize: %v", ferr)
			return
		}
		Ev.Fault("session_crash_with_stale_bytes", crashes)
		ov := out.b

		// real applier
		target := &memFile{b: append([]byte{}, old...)}
		src := seeksource.FromBytes(ov)
		if _, err := src.Resume(nil); err != nil {
			Must(err, "resume overlay source")
		}
		var perr error
		if p := Recover(func() { perr = (&overlay.OverlayPatchContext{}).Patch(src, target) }); p != "" || perr != nil {
			Violation(rt, "C14/patch-failed", "OverlayPatchContext.Patch: %v %s\nruns %v\nscript %v", perr, p, runs, script)
			return
		}
		final := target.pos
		if final > int64(len(target.b)) {
			target.b = append(target.b, make([]byte, final-int64(len(target.b)))...)
		}
		got := target.b[:final]
		if !bytes.Equal(got, nw) {
			Violation(rt, "C14/wrong-result", "old+overlay (truncated at %d) differs from new (len %d) at offset %d; sessions=%d\nruns %v\nscript %v", final, len(nw), firstDiff(got, nw), sessions, runs, script)
			return
		}
		// reference applier on the same bytes
		ref, rerr := RefOverlayApply(ov, old)
		if rerr != nil || !bytes.Equal(ref, nw) {
			Violation(rt, "C14/reference-disagrees", "reference applier: err=%v, equal=%v", rerr, bytes.Equal(ref, nw))
			return
		}
		// probes from the decoded overlay
		skips, skipAtWindowEnd, trailingFresh := 0, false, false
		rr := NewRefReader(ov)
		rr.Magic()
		rr.Next(&overlay.OverlayHeader{})
		pos := 0
		for {
			op := &overlay.OverlayOp{}
			if rr.Next(op) != nil || op.Type == overlay.OverlayOp_HEY_YOU_DID_IT {
				break
			}
			if op.Type == overlay.OverlayOp_SKIP {
				skips++
				pos += int(op.Len)
				if pos%(128*KiB) == 0 {
					skipAtWindowEnd = true
				}
			} else {
				if pos >= len(old) && len(op.Data) > 0 {
					trailingFresh = true
				}
				pos += len(op.Data)
			}
		}
		Ev.ProbeIf(skips > 0, "skip_emitted")
		Ev.ProbeIf(skipAtWindowEnd, "skip_ending_at_window_boundary")
		Ev.ProbeIf(trailingFresh, "fresh_past_old_eof")
		Ev.ProbeIf(staleTotal > len(nw)-fed+1 && crashes > 0, "resume_with_stale_bytes")
		Ev.Eval(fnv64(old, nw, []byte(fmt.Sprint(sliceMode, sliceSeed, flushEvery, crashEvery))), skips > 0 || crashes > 0, func() interface{} {
			return map[string]interface{}{"old_len": len(old), "new_len": len(nw), "runs": runs, "script_first_steps": script,
				"sessions": sessions, "skip_ops": skips, "overlay_bytes": len(ov)}
		})
	})
}
