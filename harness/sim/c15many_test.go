package sim

import (
	"bytes"
	"context"
	"fmt"
	"io"
	"runtime"
	"testing"

	"github.com/itchio/lake/tlc"
	"github.com/itchio/wharf/pwr"
)

// tinyPool serves n one-byte files whose content repeats with a short period.
type tinyPool struct{ n int64 }

func tinyByte(i int64) byte { return byte('a' + i%5) }

func (p *tinyPool) GetSize(i int64) int64 { return 1 }
func (p *tinyPool) GetReader(i int64) (io.Reader, error) {
	return bytes.NewReader([]byte{tinyByte(i)}), nil
}
func (p *tinyPool) GetReadSeeker(i int64) (io.ReadSeeker, error) {
	return bytes.NewReader([]byte{tinyByte(i)}), nil
}
func (p *tinyPool) Close() error { return nil }

// TestC15ManyHashes: an old build whose signature has far more than 65536 hashes, every block of
// it present tens of thousands of times all over the signature; new files that are equal to those
// blocks but have no namesake in the old build. Which old block a new one is matched to must not
// depend on the number of CPUs or on the run: the same patch bytes every time.
func TestC15ManyHashes(t *testing.T) {
	Ev.Property = "C15"
	ft := &fatalT{t: t}
	const n = 3 * 65536 // (whole multiples of 65536: nothing favours one stretch of the signature over another)
	old := &tlc.Container{}
	for i := int64(0); i < n; i++ {
		old.Files = append(old.Files, &tlc.File{Path: fmt.Sprintf("o/%06d", i), Mode: 0o644, Size: 1, Offset: i})
	}
	old.Size = n
	hashes, err := pwr.ComputeSignature(context.Background(), old, &tinyPool{n: n}, Quiet())
	if err != nil || len(hashes) != n {
		Violation(ft, "C15/diff-failed", "ComputeSignature over %d one-byte files: %v (%d hashes)", n, err, len(hashes))
		return
	}
	nw := &tlc.Container{}
	for i := int64(0); i < 7; i++ {
		nw.Files = append(nw.Files, &tlc.File{Path: fmt.Sprintf("n/%d", i), Mode: 0o644, Size: 1, Offset: i})
	}
	nw.Size = 7
	var ref, refSig []byte
	runs := 0
	for round := 0; round < 3; round++ {
		for _, procs := range []int{1, 4, 16, 2} {
			prev := runtime.GOMAXPROCS(procs)
			var patch, sig bytes.Buffer
			dctx := &pwr.DiffContext{Compression: &pwr.CompressionSettings{Algorithm: pwr.CompressionAlgorithm_NONE}, Consumer: Quiet(),
				SourceContainer: nw, Pool: &tinyPool{n: 7}, TargetContainer: old, TargetSignature: hashes}
			var werr error
			p := Recover(func() { werr = dctx.WritePatch(context.Background(), &patch, &sig) })
			runtime.GOMAXPROCS(prev)
			if p != "" || werr != nil {
				Violation(ft, "C15/diff-failed", "WritePatch against a signature of %d hashes: %v %s", n, werr, p)
				return
			}
			runs++
			if ref == nil {
				ref, refSig = patch.Bytes(), sig.Bytes()
				continue
			}
			if !bytes.Equal(patch.Bytes(), ref) || !bytes.Equal(sig.Bytes(), refSig) {
				Violation(ft, "C15/patch-nondeterministic", "old build of %d one-byte files (5 distinct contents), new build of 7 such files under new names: run %d (GOMAXPROCS %d) wrote other patch bytes than run 1 (first difference at byte %d of %d; signature equal %v)", n, runs, procs, firstDiff(ref, patch.Bytes()), len(ref), bytes.Equal(sig.Bytes(), refSig))
				return
			}
		}
	}
	Ev.Probe("signature_of_more_than_65536_hashes_full_of_duplicates")
	Ev.Eval(uint64(n)*31, true, func() interface{} {
		return map[string]interface{}{"old_files": n, "hashes": len(hashes), "runs_compared": runs, "patch_bytes": len(ref)}
	})
}
