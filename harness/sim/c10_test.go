package sim

import (
	"bytes"
	"context"
	"fmt"
	"github.com/itchio/lake/tlc"
	"github.com/itchio/savior"
	"io"
	"path/filepath"
	"testing"
	"time"

	"github.com/golang/protobuf/proto"
	"github.com/itchio/lake/pools/fspool"
	"github.com/itchio/savior/seeksource"
	"github.com/itchio/wharf/bsdiff"
	"github.com/itchio/wharf/pwr"
	"github.com/itchio/wharf/pwr/bowl"
	"github.com/itchio/wharf/pwr/overlay"
	"github.com/itchio/wharf/pwr/patcher"
	"github.com/itchio/wharf/pwr/rediff"
	"github.com/itchio/wharf/wire"
	"pgregory.net/rapid"
)

type budgetExceeded struct{ what string }

// guarded runs f with a read budget (deterministic hang detection) backed by a wall-clock guard.
// It returns (panic text, hang description).
func guarded(f func()) (panicMsg, hang string) {
	done := make(chan struct{})
	go func() {
		defer close(done)
		defer func() {
			if r := recover(); r != nil {
				if b, ok := r.(budgetExceeded); ok {
					hang = "read budget exceeded: " + b.what
					return
				}
				if he, ok := r.(HarnessError); ok {
					panicMsg = "HARNESS:" + he.Msg
					return
				}
				panicMsg = fmt.Sprintf("%v\n%s", r, trunc(stack(), 3000))
			}
		}()
		f()
	}()
	select {
	case <-done:
	case <-time.After(40 * time.Second):
		hang = "no return within 40 s wall clock (normal: milliseconds)"
	}
	return
}

func budgetSource(data []byte, budget int) *Source {
	s := &Source{Data: data}
	s.OnRead = func(n int, off int64) {
		if n > budget {
			panic(budgetExceeded{fmt.Sprintf("%d reads of a %d-byte stream", n, len(data))})
		}
	}
	return s
}

// subjects: each takes a (possibly malformed) stream and must return (err or nil) without panic/hang.

func subjPatcher(stream []byte, oldDir, outDir string, fresh bool) (err error) {
	return subjPatcherWL(stream, oldDir, outDir, fresh, nil)
}

// subjPatcherWL is the patch applier with an optional whitelist (partial application).
func subjPatcherWL(stream []byte, oldDir, outDir string, fresh bool, whitelist map[int64]bool) (err error) {
	src := seeksource.NewWithSize(budgetSource(stream, 20*len(stream)+5000), int64(len(stream)))
	p, err := patcher.New(src, Quiet())
	if err != nil {
		return err
	}
	if whitelist != nil {
		p.SetSourceIndexWhitelist(whitelist)
	}
	pool := fspool.New(p.GetTargetContainer(), oldDir)
	var b bowl.Bowl
	if fresh {
		b, err = bowl.NewFreshBowl(bowl.FreshBowlParams{TargetContainer: p.GetTargetContainer(), SourceContainer: p.GetSourceContainer(), TargetPool: pool, OutputFolder: outDir})
	} else {
		b, err = bowl.NewDryBowl(&bowl.DryBowlParams{TargetContainer: p.GetTargetContainer(), SourceContainer: p.GetSourceContainer()})
	}
	if err != nil {
		return err
	}
	if err := p.Resume(nil, pool, b); err != nil {
		return err
	}
	return b.Commit()
}

func subjRediff(stream []byte, oldDir, newDir string) error {
	src := seeksource.NewWithSize(budgetSource(stream, 40*len(stream)+5000), int64(len(stream)))
	rc, err := rediff.NewContext(rediff.Params{PatchReader: src, Consumer: Quiet(), Compression: &pwr.CompressionSettings{Algorithm: pwr.CompressionAlgorithm_NONE}})
	if err != nil {
		return err
	}
	var out bytes.Buffer
	return rc.Optimize(rediff.OptimizeParams{TargetPool: fspool.New(rc.GetTargetContainer(), oldDir), SourcePool: fspool.New(rc.GetSourceContainer(), newDir), PatchWriter: &out})
}

func subjSignature(stream []byte) error {
	src := seeksource.NewWithSize(budgetSource(stream, 20*len(stream)+5000), int64(len(stream)))
	if _, err := src.Resume(nil); err != nil {
		return err
	}
	si, err := pwr.ReadSignature(context.Background(), src)
	if err != nil {
		return err
	}
	_, err = pwr.ComputeHashInfo(si)
	return err
}

// subjSignatureGuard hands the stream to a safekeeper placed over the very build the (valid)
// signature was made for, and reads the first files through it.
func subjSignatureGuard(stream []byte, dir string) error {
	c := Walk(dir)
	sk, err := pwr.NewSafeKeeper(pwr.SafeKeeperParams{Inner: fspool.New(c, dir), Open: func() (savior.SeekSource, error) {
		src := seeksource.NewWithSize(budgetSource(stream, 20*len(stream)+5000), int64(len(stream)))
		_, err := src.Resume(nil)
		return src, err
	}})
	if err != nil {
		return err
	}
	defer sk.Close()
	for i := 0; i < len(c.Files) && i < 6; i++ {
		r, err := sk.GetReader(int64(i))
		if err != nil {
			continue
		}
		io.Copy(io.Discard, r)
	}
	return nil
}

func subjOverlay(stream []byte, old []byte) error {
	src := seeksource.NewWithSize(budgetSource(stream, 20*len(stream)+5000), int64(len(stream)))
	if _, err := src.Resume(nil); err != nil {
		return err
	}
	return (&overlay.OverlayPatchContext{}).Patch(src, &memFile{b: append([]byte{}, old...)})
}

// encodeStream writes magic + header + (optionally compressed) body messages.
func encodeStream(magic int32, header proto.Message, comp *pwr.CompressionSettings, body []proto.Message) []byte {
	var buf bytes.Buffer
	raw := wire.NewWriteContext(&buf)
	Must(raw.WriteMagic(magic), "magic")
	if header != nil {
		Must(raw.WriteMessage(header), "header")
	}
	w := raw
	if comp != nil {
		var err error
		w, err = pwr.CompressWire(raw, comp)
		Must(err, "compress")
	}
	for _, m := range body {
		Must(w.WriteMessage(m), "message")
	}
	if comp != nil {
		Must(w.Close(), "close")
	}
	return buf.Bytes()
}

var evilInts = []int64{-1, 0, 1, 2, 1 << 31, 1 << 62, -(1 << 40)}

// patchMessages flattens a decoded patch into its body messages.
func patchMessages(rp *RefPatch) []proto.Message {
	out := []proto.Message{rp.Target, rp.Source}
	for _, fs := range rp.Files {
		out = append(out, fs.Header)
		if fs.Bsdiff != nil {
			out = append(out, fs.Bsdiff)
			for _, c := range fs.Ctrl {
				out = append(out, c)
			}
			out = append(out, &bsdiff.Control{Eof: true})
		} else {
			for _, op := range fs.Ops {
				out = append(out, op)
			}
		}
		out = append(out, &pwr.SyncOp{Type: pwr.SyncOp_HEY_YOU_DID_IT})
	}
	return out
}

// mutateMessages applies 1-3 field-level mutations to the series messages (never to the two
// containers) and returns a description.
// bsdiffOldPos returns, for message index i inside a bsdiff series, the absolute old offset before
// message i and the size of the series' old file (ok=false if i is not inside a bsdiff series).
func bsdiffOldPos(msgs []proto.Message, i int, oldSizes []int64) (pos, size int64, ok bool) {
	start := -1
	for j := i; j >= 0; j-- {
		if bh, is := msgs[j].(*pwr.BsdiffHeader); is {
			start = j
			if bh.TargetIndex < 0 || bh.TargetIndex >= int64(len(oldSizes)) {
				return 0, 0, false
			}
			size = oldSizes[bh.TargetIndex]
			break
		}
		if _, is := msgs[j].(*pwr.SyncHeader); is {
			return 0, 0, false
		}
	}
	if start < 0 {
		return 0, 0, false
	}
	for j := start + 1; j < i; j++ {
		if c, is := msgs[j].(*bsdiff.Control); is {
			pos += int64(len(c.Add)) + c.Seek
		}
	}
	return pos, size, true
}

func mutateMessages(rt *rapid.T, msgs []proto.Message, nfilesOld, nfilesNew int, oldSizes ...int64) ([]proto.Message, []string) {
	out := make([]proto.Message, len(msgs))
	for i, m := range msgs {
		out[i] = proto.Clone(m)
	}
	var desc []string
	n := rapid.IntRange(1, 3).Draw(rt, "nmut")
	for k := 0; k < n && len(out) > 2; k++ {
		i := rapid.IntRange(2, len(out)-1).Draw(rt, "mutidx")
		evil := rapid.SampledFrom(evilInts).Draw(rt, "evil")
		if rapid.Bool().Draw(rt, "edgeidx") {
			cands := []int64{int64(nfilesOld), int64(nfilesOld) - 1, int64(nfilesNew), int64(nfilesNew) - 1}
			for fi, sz := range oldSizes {
				if sz == 0 || sz%BlockSize == 0 {
					cands = append(cands, int64(fi)) // an empty old file / one that ends on a block boundary
				}
			}
			evil = rapid.SampledFrom(cands).Draw(rt, "edgeval")
		}
		switch m := out[i].(type) {
		case *pwr.SyncHeader:
			switch rapid.IntRange(0, 2).Draw(rt, "shmut") {
			case 0:
				m.FileIndex = evil
				desc = append(desc, fmt.Sprintf("msg %d SyncHeader.FileIndex=%d", i, evil))
			case 1:
				m.Type = pwr.SyncHeader_Type(rapid.SampledFrom([]int32{0, 1, 2, 7, -1}).Draw(rt, "shtype"))
				desc = append(desc, fmt.Sprintf("msg %d SyncHeader.Type=%d", i, m.Type))
			default:
				out = append(out[:i], out[i+1:]...)
				desc = append(desc, fmt.Sprintf("msg %d SyncHeader dropped", i))
			}
		case *pwr.SyncOp:
			switch rapid.IntRange(0, 7).Draw(rt, "opmut") {
			case 7:
				// the same op once more, naming another old file (two old files then contribute to this
				// new file in related amounts)
				cl := proto.Clone(m).(*pwr.SyncOp)
				cl.FileIndex = evil
				out = append(out[:i+1], append([]proto.Message{cl}, out[i+1:]...)...)
				desc = append(desc, fmt.Sprintf("msg %d SyncOp (type %v) duplicated with FileIndex=%d", i, m.Type, evil))
			case 0:
				m.FileIndex = evil
				desc = append(desc, fmt.Sprintf("msg %d SyncOp.FileIndex=%d", i, evil))
			case 1:
				m.BlockIndex = evil
				desc = append(desc, fmt.Sprintf("msg %d SyncOp.BlockIndex=%d", i, evil))
			case 2:
				m.BlockSpan = evil
				desc = append(desc, fmt.Sprintf("msg %d SyncOp.BlockSpan=%d", i, evil))
			case 3:
				m.Type = pwr.SyncOp_Type(rapid.SampledFrom([]int32{0, 1, 5, 2049, -3}).Draw(rt, "optype"))
				desc = append(desc, fmt.Sprintf("msg %d SyncOp.Type=%d", i, m.Type))
			case 4:
				out = append(out[:i], out[i+1:]...)
				desc = append(desc, fmt.Sprintf("msg %d SyncOp (type %v) dropped", i, m.Type))
			case 5:
				if rapid.Bool().Draw(rt, "insertrange") {
					// an extra block range with hostile fields right after this op
					extra := &pwr.SyncOp{Type: pwr.SyncOp_BLOCK_RANGE, FileIndex: evil, BlockIndex: rapid.SampledFrom(evilInts).Draw(rt, "evil4"), BlockSpan: rapid.SampledFrom(evilInts).Draw(rt, "evil5")}
					out = append(out[:i+1], append([]proto.Message{extra}, out[i+1:]...)...)
					desc = append(desc, fmt.Sprintf("BLOCK_RANGE(%d,%d,%d) inserted after msg %d", extra.FileIndex, extra.BlockIndex, extra.BlockSpan, i))
					break
				}
				out = append(out[:i+1], append([]proto.Message{proto.Clone(m)}, out[i+1:]...)...)
				desc = append(desc, fmt.Sprintf("msg %d SyncOp (type %v) duplicated", i, m.Type))
			default:
				// turn it into a block range with all three fields hostile
				m.Type, m.FileIndex, m.BlockIndex, m.BlockSpan = pwr.SyncOp_BLOCK_RANGE, evil, rapid.SampledFrom(evilInts).Draw(rt, "evil2"), rapid.SampledFrom(evilInts).Draw(rt, "evil3")
				desc = append(desc, fmt.Sprintf("msg %d -> BLOCK_RANGE(%d,%d,%d)", i, m.FileIndex, m.BlockIndex, m.BlockSpan))
			}
		case *pwr.BsdiffHeader:
			m.TargetIndex = evil
			desc = append(desc, fmt.Sprintf("msg %d BsdiffHeader.TargetIndex=%d", i, evil))
		case *bsdiff.Control:
			cm := rapid.IntRange(0, 6).Draw(rt, "ctrlmut")
			if cm >= 5 {
				// leave the old offset exactly at (or next to) the end of the old file
				if pos, size, ok := bsdiffOldPos(out, i, oldSizes); ok {
					m.Seek = size - (pos + int64(len(m.Add))) + int64(rapid.IntRange(-1, 1).Draw(rt, "endd"))
					desc = append(desc, fmt.Sprintf("msg %d Control.Seek=%d (old offset -> end of old file %d)", i, m.Seek, size))
					continue
				}
				cm = 0
			}
			switch cm {
			case 0:
				m.Seek = evil
				desc = append(desc, fmt.Sprintf("msg %d Control.Seek=%d", i, evil))
			case 1:
				m.Add = append(m.Add, make([]byte, rapid.SampledFrom([]int{1, 70000, 300000}).Draw(rt, "addmore"))...)
				desc = append(desc, fmt.Sprintf("msg %d Control.Add grown to %d", i, len(m.Add)))
			case 2:
				m.Eof = !m.Eof
				desc = append(desc, fmt.Sprintf("msg %d Control.Eof=%v", i, m.Eof))
			case 3:
				out = append(out[:i], out[i+1:]...)
				desc = append(desc, fmt.Sprintf("msg %d Control dropped", i))
			default:
				m.Copy = append(m.Copy, 1, 2, 3)
				desc = append(desc, fmt.Sprintf("msg %d Control.Copy grown", i))
			}
		}
	}
	return out, desc
}

func cutPoints(n int, boundaries []int, rng *Rng, max int) []int {
	seen := map[int]bool{}
	var out []int
	add := func(c int) {
		if c >= 0 && c < n && !seen[c] {
			seen[c] = true
			out = append(out, c)
		}
	}
	if n <= max {
		for c := 0; c < n; c++ {
			add(c)
		}
		return out
	}
	for _, b := range boundaries {
		for d := -2; d <= 2; d++ {
			add(b + d)
		}
	}
	for len(out) < max {
		add(rng.Intn(n))
	}
	if len(out) > max {
		out = out[:max]
	}
	return out
}

// bodyBoundaries returns the stream offsets of message boundaries for an uncompressed stream.
func bodyBoundaries(stream []byte) []int {
	var out []int
	rr := NewRefReader(stream)
	rr.Magic()
	for {
		pos := len(stream) - rr.r.Len()
		out = append(out, pos)
		m := &pwr.SyncOp{}
		l, err := readFrame(rr)
		_ = m
		if err != nil || l < 0 {
			break
		}
	}
	return out
}

func readFrame(rr *RefReader) (int, error) {
	var l uint64
	var shift uint
	for {
		b, err := rr.r.ReadByte()
		if err != nil {
			return -1, err
		}
		l |= uint64(b&0x7f) << shift
		if b < 0x80 {
			break
		}
		shift += 7
	}
	if l > uint64(rr.r.Len()) {
		return -1, fmt.Errorf("short")
	}
	rr.r.Seek(int64(l), 1)
	return int(l), nil
}

// TestC10: malformed patch / signature / overlay streams yield an error, never a crash or a hang.
func TestC10(t *testing.T) {
	Ev.Rule = "valid streams (patches plain+optimized, signatures, overlays; NONE/GZIP/BROTLI) from generated build pairs; (1) truncation at EVERY byte for streams <= 400 B, else at every message boundary +-2 plus random offsets up to 160 cuts; (2) 1-3 field-level mutations of decoded series messages (indices/spans in {-1,0,1,2,n-1,n,2^31,2^62,-2^40}, unknown/swapped types, dropped/duplicated messages and end markers, hostile bsdiff controls, hash count +-n) re-encoded with correct framing; subjects: patcher (dry + fresh bowl), rediff, ReadSignature+ComputeHashInfo, overlay Patch; non-trivial = the malformed stream differs from the valid one and was fed to a subject; distinct by stream hash"
	Ev.Component("wire.ReadContext, patcher, rsync/bsdiff appliers, rediff, ReadSignature, ComputeHashInfo, OverlayPatchContext, savior decompressors, lake fspool", "real")
	Ev.Component("stream source (truncation = early EOF, stored-message corruption), read-budget watchdog", "simulated")
	Ev.Assume("containers inside the stream stay well-formed and no message declares a length beyond the stream (precondition of the property)")
	Prop(t, "C10", func(rt *rapid.T) {
		pair := GenPair(rt, GenOpts{Links: true, EmptyDirs: true, LowEntropy: true, MaxMid: 140 * KiB, MaxFiles: 4})
		if rapid.IntRange(0, 2).Draw(rt, "tieshape") == 0 && canPlace(pair.Old, "tie/e0") && canPlace(pair.New, "tie/e0") {
			// an empty old file next to a renamed file that ends on a block boundary: a block range
			// re-aimed at the empty file contributes a related number of bytes to the same new file
			al := Bytes(rapid.Uint64().Draw(rt, "tieseed"), rapid.IntRange(1, 2).Draw(rt, "tieblocks")*BlockSize)
			pair.Old["tie/e0"] = &Entry{Kind: KFile, Data: []byte{}}
			pair.New["tie/e0"] = &Entry{Kind: KFile, Data: []byte{}}
			pair.Old["tie/al.bin"] = &Entry{Kind: KFile, Data: al}
			pair.New["tie/renamed.bin"] = &Entry{Kind: KFile, Data: al}
			pair.Old.Normalize()
			pair.New.Normalize()
		}
		if rapid.IntRange(0, 5).Draw(rt, "emptyold") == 0 {
			// a first release: the old build is an empty directory (or has directories only)
			keepDirs := rapid.Bool().Draw(rt, "emptyoldkeepdirs")
			for p, e := range pair.Old {
				if e.Kind != KDir || !keepDirs {
					delete(pair.Old, p)
				}
			}
			Ev.Probe("old_build_without_files")
		}
		dir, cleanup := RunDir()
		defer cleanup()
		oldDir, newDir := filepath.Join(dir, "old"), filepath.Join(dir, "new")
		Must(pair.Old.Materialize(oldDir), "materialize old")
		Must(pair.New.Materialize(newDir), "materialize new")
		comp := GenCompression(rt)
		dr := Diff(oldDir, newDir, comp, DiffSeams{})
		if dr.Err != nil || dr.Panic != "" {
			Violation(rt, "C10/patch-production", "WritePatch failed: %v %s", dr.Err, dr.Panic)
			return
		}
		patch := dr.Patch
		kind := "plain"
		if rapid.Bool().Draw(rt, "optimized") {
			or := Optimize(patch, oldDir, newDir, OptimizeKnobs{Partitions: rapid.IntRange(0, 4).Draw(rt, "partitions"), ForceMapAll: rapid.Bool().Draw(rt, "force"), Compression: comp}, nil, nil)
			if or.Err != nil || or.Panic != "" {
				Violation(rt, "C10/patch-production", "Optimize failed: %v %s", or.Err, or.Panic)
				return
			}
			patch, kind = or.Patch, "optimized"
		}
		rng := NewRng(rapid.Uint64().Draw(rt, "cutseed"))
		outN := 0
		fed := 0
		report := func(class, subject, what string, p, hang string, stream []byte) bool {
			if p != "" {
				if len(p) > 8 && p[:8] == "HARNESS:" {
					panic(HarnessError{p[8:]})
				}
				return Violation(rt, class+"-panic", "%s panicked on %s (%s patch, %s): %s", subject, what, kind, CompString(comp), p)
			}
			if hang != "" {
				return Violation(rt, class+"-hang", "%s does not terminate on %s (%s patch, %s): %s", subject, what, kind, CompString(comp), hang)
			}
			Ev.Eval(fnv64(stream, []byte(subject)), true, func() interface{} {
				return map[string]interface{}{"subject": subject, "malformation": what, "stream_bytes": len(stream), "patch": kind, "compression": CompString(comp)}
			})
			fed++
			return false
		}
		runPatchSubjects := func(stream []byte, what string, allowFresh bool) bool {
			p, h := guarded(func() { subjPatcher(stream, oldDir, "", false) })
			if report("C10/patcher", "patcher(dry bowl)", what, p, h, stream) {
				return true
			}
			if allowFresh {
				outN++
				out := filepath.Join(dir, fmt.Sprintf("out%d", outN))
				p, h = guarded(func() { subjPatcher(stream, oldDir, out, true) })
				if report("C10/patcher", "patcher(fresh bowl)", what, p, h, stream) {
					return true
				}
			}
			// partial application: nothing, and every other file
			for wi, wl := range []map[int64]bool{{}, {0: true, 2: true, 4: true}} {
				wl := wl
				p, h = guarded(func() { subjPatcherWL(stream, oldDir, "", false, wl) })
				if report("C10/patcher", fmt.Sprintf("patcher(dry bowl, whitelist #%d)", wi), what, p, h, stream) {
					return true
				}
			}
			if kind == "plain" {
				p, h = guarded(func() { subjRediff(stream, oldDir, newDir) })
				if report("C10/rediff", "rediff", what, p, h, stream) {
					return true
				}
			}
			return false
		}

		// --- fault space 1: truncation ---
		var bounds []int
		if comp.Algorithm == pwr.CompressionAlgorithm_NONE {
			bounds = bodyBoundaries(patch)
		}
		for _, c := range cutPoints(len(patch), bounds, rng, 160) {
			Ev.Fault("stream_truncated", 1)
			if runPatchSubjects(patch[:c], fmt.Sprintf("patch truncated at byte %d of %d", c, len(patch)), rng.Intn(16) == 0) {
				return
			}
		}
		sig := dr.Sig
		var sbounds []int
		if comp.Algorithm == pwr.CompressionAlgorithm_NONE {
			sbounds = bodyBoundaries(sig)
		}
		for _, c := range cutPoints(len(sig), sbounds, rng, 100) {
			Ev.Fault("stream_truncated", 1)
			s := sig[:c]
			p, h := guarded(func() { subjSignature(s) })
			if report("C10/signature", "ReadSignature+ComputeHashInfo", fmt.Sprintf("signature truncated at byte %d of %d", c, len(sig)), p, h, s) {
				return
			}
			p, h = guarded(func() { subjSignatureGuard(s, newDir) })
			if report("C10/signature", "safekeeper over the signed build", fmt.Sprintf("signature truncated at byte %d of %d", c, len(sig)), p, h, s) {
				return
			}
		}

		// --- fault space 2: message mutation ---
		rp, err := DecodePatch(patch)
		if err != nil {
			Violation(rt, "C10/undecodable-valid-patch", "%v", err)
			return
		}
		msgs := patchMessages(rp)
		for m := 0; m < 14; m++ {
			var oldSizes []int64
			for _, f := range rp.Target.Files {
				oldSizes = append(oldSizes, f.Size)
			}
			mut, desc := mutateMessages(rt, msgs, len(rp.Target.Files), len(rp.Source.Files), oldSizes...)
			if len(desc) == 0 {
				continue
			}
			mcomp := comp
			if rapid.Bool().Draw(rt, "recompress") {
				mcomp = GenCompression(rt)
			}
			stream := encodeStream(MagicPatch, &pwr.PatchHeader{Compression: mcomp}, mcomp, mut)
			Ev.Fault("message_fields_mutated", len(desc))
			if runPatchSubjects(stream, fmt.Sprintf("mutations %v", desc), m%3 == 0) {
				return
			}
		}
		// enumerated: every block range (first 12) once more, re-aimed at every old file that is empty
		// or ends on a block boundary (first 3)
		var edgeFiles []int64
		for fi, f := range rp.Target.Files {
			if (f.Size == 0 || f.Size%BlockSize == 0) && len(edgeFiles) < 3 {
				edgeFiles = append(edgeFiles, int64(fi))
			}
		}
		nranges := 0
		for i, m := range msgs {
			op, ok := m.(*pwr.SyncOp)
			if !ok || op.Type != pwr.SyncOp_BLOCK_RANGE || nranges >= 12 {
				continue
			}
			nranges++
			for _, fi := range edgeFiles {
				if fi == op.FileIndex {
					continue
				}
				cl := proto.Clone(op).(*pwr.SyncOp)
				cl.FileIndex = fi
				mut := append(append(append([]proto.Message{}, msgs[:i+1]...), cl), msgs[i+1:]...)
				stream := encodeStream(MagicPatch, &pwr.PatchHeader{Compression: comp}, comp, mut)
				Ev.Fault("block_range_duplicated_onto_edge_file", 1)
				if runPatchSubjects(stream, fmt.Sprintf("msg %d BLOCK_RANGE(%d,%d,%d) duplicated with FileIndex=%d", i, op.FileIndex, op.BlockIndex, op.BlockSpan, fi), false) {
					return
				}
			}
		}
		// enumerated: a harmless-looking block range (one block, index 0 or 1) put before and after the
		// first operations of the patch, aimed at the first old file, the last one and one past it --
		// whatever the old build has, none included
		nOld := int64(len(rp.Target.Files))
		aim := []int64{0}
		for _, fi := range []int64{nOld - 1, nOld} {
			if fi > 0 {
				aim = append(aim, fi)
			}
		}
		nops := 0
		for i, m := range msgs {
			if _, ok := m.(*pwr.SyncOp); !ok || nops >= 4 {
				continue
			}
			nops++
			for _, fi := range aim {
				for _, bi := range []int64{0, 1} {
					for _, after := range []int{0, 1} {
						extra := &pwr.SyncOp{Type: pwr.SyncOp_BLOCK_RANGE, FileIndex: fi, BlockIndex: bi, BlockSpan: 1}
						mut := append(append(append([]proto.Message{}, msgs[:i+after]...), extra), msgs[i+after:]...)
						stream := encodeStream(MagicPatch, &pwr.PatchHeader{Compression: comp}, comp, mut)
						Ev.Fault("block_range_inserted_at_container_edge", 1)
						Ev.ProbeIf(nOld == 0, "block_range_aimed_at_an_old_build_without_files")
						if runPatchSubjects(stream, fmt.Sprintf("BLOCK_RANGE(%d,%d,1) inserted at msg %d (old build has %d files)", fi, bi, i+after, nOld), false) {
							return
						}
					}
				}
			}
		}
		// header-level malformations: unknown / unregistered compression, missing settings, wrong magic
		for hi, hdr := range []*pwr.PatchHeader{
			{Compression: &pwr.CompressionSettings{Algorithm: pwr.CompressionAlgorithm(7)}},
			{Compression: &pwr.CompressionSettings{Algorithm: pwr.CompressionAlgorithm_ZSTD}},
			{Compression: nil},
			{Compression: &pwr.CompressionSettings{Algorithm: pwr.CompressionAlgorithm_GZIP, Quality: 1 << 30}},
			{Compression: &pwr.CompressionSettings{Algorithm: pwr.CompressionAlgorithm_BROTLI, Quality: -5}},
		} {
			// body stays uncompressed: the header lies about it
			var buf bytes.Buffer
			raw := wire.NewWriteContext(&buf)
			magic := int32(MagicPatch)
			if hi == 4 {
				magic = MagicSignature
			}
			Must(raw.WriteMagic(magic), "magic")
			Must(raw.WriteMessage(hdr), "header")
			for _, m := range msgs {
				Must(raw.WriteMessage(m), "message")
			}
			Ev.Fault("header_mutated", 1)
			if runPatchSubjects(buf.Bytes(), fmt.Sprintf("header variant %d (%v), uncompressed body", hi, hdr.Compression), false) {
				return
			}
		}
		// signatures with fewer / more hashes
		rs, err := DecodeSignature(sig)
		if err == nil {
			for _, delta := range []int{-3, -1, 1, 2, -len(rs.Hashes)} {
				hs := rs.Hashes
				if delta < 0 && -delta <= len(hs) {
					hs = hs[:len(hs)+delta]
				} else if delta > 0 {
					for i := 0; i < delta; i++ {
						hs = append(append([]*pwr.BlockHash{}, hs...), &pwr.BlockHash{WeakHash: 1, StrongHash: []byte{1, 2, 3}})
					}
				} else {
					continue
				}
				body := []proto.Message{rs.Container}
				for _, h := range hs {
					body = append(body, h)
				}
				stream := encodeStream(MagicSignature, &pwr.SignatureHeader{Compression: comp}, comp, body)
				Ev.Fault("signature_hash_count_changed", 1)
				p, h := guarded(func() { subjSignature(stream) })
				if report("C10/signature", "ReadSignature+ComputeHashInfo", fmt.Sprintf("signature with %+d hashes", delta), p, h, stream) {
					return
				}
			}
		}
		// a signature that is complete in itself but lists fewer files than the build it is held
		// against (its last file gone, or its first, with their hashes)
		if err == nil && len(rs.Container.Files) >= 1 {
			for _, dropFirst := range []bool{false, true} {
				c2 := proto.Clone(rs.Container).(*tlc.Container)
				nb := func(sz int64) int {
					if sz == 0 {
						return 1
					}
					return int((sz + BlockSize - 1) / BlockSize)
				}
				hs := rs.Hashes
				if dropFirst {
					k := nb(c2.Files[0].Size)
					if k > len(hs) {
						continue
					}
					c2.Files, hs = c2.Files[1:], hs[k:]
				} else {
					k := nb(c2.Files[len(c2.Files)-1].Size)
					if k > len(hs) {
						continue
					}
					c2.Files, hs = c2.Files[:len(c2.Files)-1], hs[:len(hs)-k]
				}
				body := []proto.Message{c2}
				for _, h := range hs {
					body = append(body, h)
				}
				stream := encodeStream(MagicSignature, &pwr.SignatureHeader{Compression: comp}, comp, body)
				Ev.Fault("signature_lists_fewer_files_than_the_build", 1)
				p, h := guarded(func() { subjSignature(stream) })
				if report("C10/signature", "ReadSignature+ComputeHashInfo", fmt.Sprintf("signature without its %s file", map[bool]string{true: "first", false: "last"}[dropFirst]), p, h, stream) {
					return
				}
				p, h = guarded(func() { subjSignatureGuard(stream, newDir) })
				if report("C10/signature", "safekeeper over the signed build", fmt.Sprintf("signature without its %s file", map[bool]string{true: "first", false: "last"}[dropFirst]), p, h, stream) {
					return
				}
			}
		}
		// overlays
		oldF, newF, _ := genOverlayPair(rt)
		var ovb memFile
		ow, err := overlay.NewOverlayWriter(bytes.NewReader(oldF), 0, &ovb, 0)
		Must(err, "overlay writer")
		ow.Write(newF)
		Must(ow.Finalize(), "overlay finalize")
		ov := ovb.b
		for _, c := range cutPoints(len(ov), bodyBoundaries(ov), rng, 60) {
			Ev.Fault("stream_truncated", 1)
			s := ov[:c]
			p, h := guarded(func() { subjOverlay(s, oldF) })
			if report("C10/overlay", "OverlayPatchContext.Patch", fmt.Sprintf("overlay truncated at byte %d of %d", c, len(ov)), p, h, s) {
				return
			}
		}
		for m := 0; m < 6; m++ {
			body := []proto.Message{&overlay.OverlayHeader{}}
			rr := NewRefReader(ov)
			rr.Magic()
			rr.Next(&overlay.OverlayHeader{})
			var what []string
			for {
				op := &overlay.OverlayOp{}
				if rr.Next(op) != nil {
					break
				}
				if rng.Intn(4) == 0 {
					switch rng.Intn(4) {
					case 0:
						op.Len = evilInts[rng.Intn(len(evilInts))]
						what = append(what, fmt.Sprintf("Len=%d", op.Len))
					case 1:
						op.Type = overlay.OverlayOp_Type(rng.Intn(9) - 2)
						what = append(what, fmt.Sprintf("Type=%d", op.Type))
					case 2:
						what = append(what, "op dropped")
						continue
					default:
						body = append(body, proto.Clone(op))
						what = append(what, "op duplicated")
					}
				}
				body = append(body, op)
			}
			if len(what) == 0 {
				continue
			}
			stream := encodeStream(MagicOverlay, nil, nil, body)
			Ev.Fault("message_fields_mutated", len(what))
			p, h := guarded(func() { subjOverlay(stream, oldF) })
			if report("C10/overlay", "OverlayPatchContext.Patch", fmt.Sprintf("overlay mutations %v", what), p, h, stream) {
				return
			}
		}
		_ = fed
	})
}
