package sim

import (
	"path/filepath"
	"testing"

	"github.com/itchio/lake"
	"github.com/itchio/lake/tlc"
	"github.com/itchio/savior"
	"github.com/itchio/savior/seeksource"
	"github.com/itchio/wharf/pwr"
	"pgregory.net/rapid"
)

// TestC09: applying through the safekeeper is never silently wrong; an undamaged old build is
// never rejected.
func TestC09(t *testing.T) {
	Ev.Rule = "generated build pairs x {plain, optimized} patches x old-build damage sequences (bit flips at block-edge-biased offsets, truncation, extension inside / past the last block, emptied, deleted, filled empty files) or no damage (1/4); old build read only through NewSafeKeeper (patcher target pool AND fresh bowl target pool); non-trivial = the old build was damaged in a file the patch reads, or pristine with >= 1 reused file; distinct by (pair, patch kind, faults)"
	Ev.Component("pwr.NewSafeKeeper (validateBlock, signature loading), blockvalidator, hashinfo, ReadSignature, patcher rsync+bsdiff appliers, lrufile, fresh bowl Transpose", "real")
	Ev.Component("old build on disk (stored-data faults), signature source", "simulated")
	Ev.Assume("in-place transpositions (renames that read nothing) are outside the statement; configuration is fresh bowl with the checking pool as its target pool")
	Ev.Assume("damage happens before application starts; damage during the run (after a block's verdict was cached) is not demanded to be detected")
	Prop(t, "C09", func(rt *rapid.T) {
		pair := GenPair(rt, GenOpts{Links: true, EmptyDirs: true, LowEntropy: true, MaxMid: 260 * KiB, Big: rapid.IntRange(0, 29).Draw(rt, "allowbig") == 0})
		var forcedFaults []Fault
		if rapid.IntRange(0, 7).Draw(rt, "outoforder") == 0 {
			// blocks of one old file reused out of order (second part first), with damage in a
			// low-numbered block that is only read later
			nb := rapid.IntRange(3, 7).Draw(rt, "ooblocks")
			data := Bytes(rapid.Uint64().Draw(rt, "ooseed"), nb*BlockSize+rapid.IntRange(0, 3000).Draw(rt, "ootail"))
			cut := rapid.IntRange(1, nb-1).Draw(rt, "oocut") * BlockSize
			pair.Old["oo/swap.bin"] = &Entry{Kind: KFile, Data: data}
			pair.New["oo/swap.bin"] = &Entry{Kind: KFile, Data: append(append([]byte{}, data[cut:]...), data[:cut]...)}
			pair.Meta["oo/swap.bin"] = FileMeta{From: "oo/swap.bin", Op: "halves swapped"}
			pair.Old.Normalize()
			pair.New.Normalize()
			forcedFaults = []Fault{{Kind: "flip", Path: "oo/swap.bin", Off: rapid.IntRange(0, cut-1).Draw(rt, "ooflip"), Seed: 3}}
			Ev.Probe("old_blocks_reused_out_of_order_with_damage_in_an_earlier_block")
		}
		if rapid.IntRange(0, 9).Draw(rt, "readthencopy") == 0 {
			// every block of an old file is reused by an earlier new file, a later new file is a whole
			// copy of it, and the old file has grown
			nb := rapid.IntRange(1, 4).Draw(rt, "rtcblocks")
			b := Bytes(rapid.Uint64().Draw(rt, "rtcseed"), nb*BlockSize+rapid.IntRange(0, 3000).Draw(rt, "rtctail"))
			pair.Old["rtc/b.bin"] = &Entry{Kind: KFile, Data: b}
			pair.New["rtc/a_first.bin"] = &Entry{Kind: KFile, Data: append(Bytes(5, BlockSize), b...)}
			pair.New["rtc/z_copy.bin"] = &Entry{Kind: KFile, Data: b}
			if rapid.Bool().Draw(rt, "rtckeep") {
				pair.New["rtc/b.bin"] = &Entry{Kind: KFile, Data: b}
			}
			pair.Old.Normalize()
			pair.New.Normalize()
			forcedFaults = append(forcedFaults, Fault{Kind: "extend", Path: "rtc/b.bin", N: rapid.SampledFrom([]int{1, 10, 70000}).Draw(rt, "rtcext"), Seed: 4})
			Ev.Probe("all_blocks_read_then_whole_copy_of_extended_file")
		}
		if rapid.IntRange(0, 9).Draw(rt, "twinold") == 0 {
			// two identical old files, both kept (read one after the other); the second one is cut short:
			// what is missing from it is exactly what the first one had there
			n := rapid.SampledFrom([]int{40000, BlockSize, BlockSize + 30000, 3 * BlockSize}).Draw(rt, "twinsize")
			b := Bytes(rapid.Uint64().Draw(rt, "twinseed"), n)
			for _, p := range []string{"tw/a.bin", "tw/b.bin"} {
				pair.Old[p] = &Entry{Kind: KFile, Data: b}
				pair.New[p] = &Entry{Kind: KFile, Data: b}
			}
			pair.Old.Normalize()
			pair.New.Normalize()
			forcedFaults = append(forcedFaults, Fault{Kind: "truncate", Path: "tw/b.bin", N: rapid.SampledFrom([]int{10000, n / 2, n - 1, max(1, n-n%BlockSize-1)}).Draw(rt, "twincut")})
			Ev.Probe("identical_old_files_second_one_truncated")
		}
		shortTail := rapid.IntRange(0, 9).Draw(rt, "shorttail") == 0
		if shortTail {
			// a kept file of a few blocks plus a short tail; the only damage is in that tail
			n := rapid.IntRange(1, 3).Draw(rt, "stblocks")*BlockSize + rapid.SampledFrom([]int{1, 100, 5000, 20000}).Draw(rt, "sttail")
			b := Bytes(rapid.Uint64().Draw(rt, "stseed"), n)
			pair.Old["st/keep.bin"] = &Entry{Kind: KFile, Data: b}
			pair.New["st/keep.bin"] = &Entry{Kind: KFile, Data: b}
			pair.Old.Normalize()
			pair.New.Normalize()
			forcedFaults = append(forcedFaults, Fault{Kind: "flip", Path: "st/keep.bin", Off: n - 1 - rapid.IntRange(0, n%BlockSize-1).Draw(rt, "stflip")})
			Ev.Probe("kept_file_damaged_only_in_its_short_last_block")
		}
		dir, cleanup := RunDir()
		defer cleanup()
		oldDir, newDir, dmgDir, outDir := filepath.Join(dir, "old"), filepath.Join(dir, "new"), filepath.Join(dir, "dmg"), filepath.Join(dir, "out")
		Must(pair.Old.Materialize(oldDir), "materialize old")
		Must(pair.New.Materialize(newDir), "materialize new")
		patch, desc, fail := genPatch(rt, oldDir, newDir, true)
		if fail != "" {
			Violation(rt, "C09/patch-production", "%s", fail)
			return
		}
		oc, oh, err := ComputeSig(oldDir)
		Must(err, "signature of old build")
		sig := SigBytes(oc, oh, GenCompression(rt))

		damaged, applied := pair.Old, []Fault(nil)
		if rapid.IntRange(0, 3).Draw(rt, "damage") != 0 {
			fs := GenFaults(rt, pair.Old, FaultOpts{Content: true, Delete: true})
			// only files can be damaged here
			var ffs []Fault
			for _, f := range fs {
				if e := pair.Old[f.Path]; e != nil && e.Kind == KFile {
					ffs = append(ffs, f)
				}
			}
			if shortTail && rapid.Bool().Draw(rt, "stonly") {
				ffs = nil
			}
			damaged, applied = ApplyFaults(pair.Old, append(ffs, forcedFaults...))
		}
		pristine := pair.Old.Diff(damaged) == ""
		Must(damaged.Materialize(dmgDir), "materialize damaged old")
		countFaults(applied)

		opens := 0
		// sometimes: a first attempt hits a transient read error on the old build, and the application
		// is retried through the same checking pool (its verdict cache survives)
		retry := rapid.IntRange(0, 4).Draw(rt, "retry") == 0
		failAt := rapid.IntRange(1, 12).Draw(rt, "failread")
		// or: one Seek on the old build fails (a transient error), nothing is retried: the application
		// either reports an error or is right
		failSeek := 0
		if !retry && rapid.IntRange(0, 3).Draw(rt, "seekfails") == 0 {
			failSeek = rapid.IntRange(1, 16).Draw(rt, "failseek")
		}
		var keptSK lake.Pool
		var keptInner *Pool
		ar := ApplyFresh(patch, dmgDir, outDir, ApplyOpts{
			PoolSlice: drawSlicer(rt, "oldpoolslice"), // the pool below the safekeeper may return short reads
			OnPool: func(p *Pool) {
				keptInner = p
				if retry {
					p.FailRead = failAt
				}
				if failSeek > 0 {
					p.FailSeek = failSeek
				}
			},
			WrapPool: func(inner lake.Pool, c *tlc.Container) lake.Pool {
				sk, err := pwr.NewSafeKeeper(pwr.SafeKeeperParams{
					Inner: inner,
					Open: func() (savior.SeekSource, error) {
						opens++
						s := seeksource.FromBytes(sig)
						_, err := s.Resume(nil)
						return s, err
					},
				})
				Must(err, "NewSafeKeeper")
				keptSK = sk
				return sk
			},
		})
		if retry && ar.Err != nil && keptInner != nil && keptInner.Faults > 0 && keptSK != nil {
			Ev.Fault("transient_read_error_then_retry", 1)
			keptInner.FailRead = 0
			outDir = filepath.Join(dir, "out-retry")
			sk := keptSK
			ar = ApplyFresh(patch, dmgDir, outDir, ApplyOpts{WrapPool: func(inner lake.Pool, c *tlc.Container) lake.Pool { return sk }})
		}
		if !pristine && ar.Err != nil && ar.Panic == "" && keptSK != nil && !retry && failSeek == 0 && (rapid.IntRange(0, 2).Draw(rt, "again") == 0 || shortTail) {
			// the application was refused; it is tried once more through the same checking pool (the
			// old build is still damaged the same way): refused again, or right
			Ev.Probe("second_application_through_the_same_safekeeper_after_a_refusal")
			outDir = filepath.Join(dir, "out-again")
			sk := keptSK
			// (the pool under the safekeeper stays the one it was made with; how it slices its reads
			// may change from one application to the next)
			as := drawSlicer(rt, "againslice")
			if shortTail && rapid.Bool().Draw(rt, "againchunks") {
				as = NewSlicer(5, rapid.Uint64().Draw(rt, "againchunkseed"))
			}
			if as != nil && keptInner != nil {
				keptInner.Slice = as
			}
			ar = ApplyFresh(patch, dmgDir, outDir, ApplyOpts{WrapPool: func(inner lake.Pool, c *tlc.Container) lake.Pool { return sk }})
		}
		if ar.Panic != "" {
			Violation(rt, "C09/panic", "apply through the safekeeper panicked at %s: %s (patch %s, faults %v)", ar.Stage, ar.Panic, desc, faultStrings(applied))
			return
		}
		seekFault := failSeek > 0 && keptInner != nil && keptInner.Faults > 0
		if seekFault {
			Ev.Fault("transient_seek_error_on_old_build", 1)
		}
		if pristine && seekFault && ar.Err != nil {
			// an I/O error was injected and an error came back: fine
			Ev.Probe("injected_seek_error_reported")
		} else if pristine {
			if ar.Err != nil {
				Violation(rt, "C09/pristine-rejected", "an undamaged old build was rejected at %s: %v (patch %s)\nold %v", ar.Stage, trimErr(ar.Err), desc, pair.Old.Describe())
				return
			}
			if d := pair.New.Diff(MustSnapshot(outDir).Tree); d != "" {
				Violation(rt, "C09/pristine-wrong-output", "undamaged old build, safekeeper apply differs from new build: %s (patch %s)", d, desc)
				return
			}
		} else if ar.Err == nil {
			if d := pair.New.Diff(MustSnapshot(outDir).Tree); d != "" {
				Violation(rt, "C09/silently-wrong", "old build damaged (%v); apply through the safekeeper returned no error but the result differs from the new build: %s (patch %s)", faultStrings(applied), d, desc)
				return
			}
			Ev.Probe("damage_not_read_by_patch_result_exact")
		} else {
			Ev.Probe("damage_detected_error_returned")
		}
		Ev.ProbeIf(opens > 1, "signature_opened_more_than_once")
		reused := false
		for _, m := range pair.Meta {
			if m.From != "" {
				reused = true
			}
		}
		for _, p := range pair.Old.Files() {
			n := len(pair.Old[p].Data)
			Ev.ProbeIf(pristine && n > 0 && n%BlockSize == 0, "pristine_old_file_size_multiple_of_64KiB")
		}
		Ev.Eval(pair.Hash()^fnv64([]byte(desc), []byte(joinLines(faultStrings(applied), 99))), reused, func() interface{} {
			m := pair.Sample()
			m["patch"], m["faults"], m["result_error"] = desc, faultStrings(applied), ar.Err != nil
			return m
		})
	})
}
