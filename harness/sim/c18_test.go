package sim

import (
	"bytes"
	"fmt"
	"io"
	"path/filepath"
	"sync"
	"testing"

	"github.com/itchio/lake"
	"github.com/itchio/wharf/pwr"
	"pgregory.net/rapid"
)

// recWritePool is the inner pool of the validating pool: it records exactly what arrives.
type recWritePool struct {
	lake.Pool
	mu     sync.Mutex
	Got    map[int64][]byte
	Closed map[int64]int
	// FailClose: closing a writer of the inner pool reports an error (the data it was given stays)
	FailClose bool
}

type recWriter struct {
	p   *recWritePool
	idx int64
}

func (w *recWriter) Write(b []byte) (int, error) {
	w.p.mu.Lock()
	w.p.Got[w.idx] = append(w.p.Got[w.idx], b...)
	w.p.mu.Unlock()
	return len(b), nil
}

func (w *recWriter) Close() error {
	w.p.mu.Lock()
	w.p.Closed[w.idx]++
	fail := w.p.FailClose
	w.p.mu.Unlock()
	if fail {
		return ErrInjected
	}
	return nil
}

func (p *recWritePool) GetWriter(i int64) (io.WriteCloser, error) {
	p.mu.Lock()
	if _, ok := p.Got[i]; !ok {
		p.Got[i] = []byte{}
	}
	p.mu.Unlock()
	return &recWriter{p: p, idx: i}, nil
}

func blocksOf(b []byte) [][]byte {
	var out [][]byte
	for off := 0; off < len(b); off += BlockSize {
		end := off + BlockSize
		if end > len(b) {
			end = len(b)
		}
		out = append(out, b[off:end])
	}
	return out
}

// mutateWritten derives the written content from the signed content.
func mutateWritten(rt *rapid.T, s []byte) ([]byte, string) {
	sb := blocksOf(s)
	switch rapid.IntRange(0, 11).Draw(rt, "mutation") {
	case 0, 1:
		return s, "equal"
	case 10, 11:
		// the signed content without its first k blocks: every block is a signed block, one
		// position too early
		if len(sb) > 1 {
			k := rapid.IntRange(1, len(sb)-1).Draw(rt, "suffixfrom")
			if rapid.Bool().Draw(rt, "suffixlast") {
				k = len(sb) - 1
			}
			return s[k*BlockSize:], fmt.Sprintf("the signed content from block %d on", k)
		}
		return s, "equal"
	case 2:
		if len(sb) > 1 {
			k := rapid.IntRange(0, len(sb)-1).Draw(rt, "prefixblocks")
			return s[:k*BlockSize], fmt.Sprintf("block-aligned prefix (%d blocks)", k)
		}
		return s, "equal"
	case 3:
		if len(s) > 2 && rapid.IntRange(0, 2).Draw(rt, "weakcollide") == 0 {
			if w, ok := WeakCollide(s, blockEdgeOffset(rt, len(s), "wcoff")); ok {
				return w, "three bytes changed by +1,-2,+1 (weak checksum preserved)"
			}
		}
		if len(s) > 0 {
			w := append([]byte{}, s...)
			n := rapid.IntRange(1, 3).Draw(rt, "nflips")
			d := "flip"
			for i := 0; i < n; i++ {
				off := blockEdgeOffset(rt, len(s), "wflip")
				w[off] ^= 0x40
				d += fmt.Sprintf("@%d", off)
			}
			return w, d
		}
		return []byte{1}, "one byte instead of empty"
	case 4:
		if len(sb) > 1 {
			k := rapid.IntRange(0, len(sb)-1).Draw(rt, "delblock")
			w := append(append([]byte{}, s[:k*BlockSize]...), s[min((k+1)*BlockSize, len(s)):]...)
			return w, fmt.Sprintf("block %d deleted", k)
		}
	case 5:
		if len(sb) > 0 {
			k := rapid.IntRange(0, len(sb)-1).Draw(rt, "dupblock")
			end := min((k+1)*BlockSize, len(s))
			w := append(append(append([]byte{}, s[:end]...), s[k*BlockSize:end]...), s[end:]...)
			return w, fmt.Sprintf("block %d duplicated", k)
		}
	case 6:
		if len(sb) > 2 {
			i := rapid.IntRange(0, len(sb)-2).Draw(rt, "swapblock")
			if len(sb[i]) == BlockSize && len(sb[i+1]) == BlockSize {
				w := append([]byte{}, s...)
				copy(w[i*BlockSize:], sb[i+1])
				copy(w[(i+1)*BlockSize:], sb[i])
				return w, fmt.Sprintf("blocks %d,%d swapped", i, i+1)
			}
		}
	case 7:
		if len(s) > 0 {
			cut := blockEdgeOffset(rt, len(s), "wtrunc")
			return s[:cut], fmt.Sprintf("truncated to %d", cut)
		}
	case 8:
		tailRoom := BlockSize - len(s)%BlockSize
		n := rapid.SampledFrom([]int{1, 100, tailRoom - 1, tailRoom, tailRoom + 1, BlockSize, 2*BlockSize + 3}).Draw(rt, "wextend")
		if n < 1 {
			n = 1
		}
		return append(append([]byte{}, s...), Bytes(uint64(n), n)...), fmt.Sprintf("extended by %d", n)
	}
	return Bytes(rapid.Uint64().Draw(rt, "wseed"), rapid.IntRange(0, 3*BlockSize).Draw(rt, "wsize")), "unrelated content"
}

// TestC18: writing through a validating pool checks every block regardless of write sizes.
func TestC18(t *testing.T) {
	Ev.Rule = "signed file of boundary-biased size among other files x written content (equal, block-aligned prefix, flips, block deleted/duplicated/swapped, truncated, extended, unrelated) x write slicing (1 B .. several blocks) x {error mode, wound mode raw, wound mode with aggregation} with the relay/aggregator goroutines scheduled; non-trivial = written differs from signed; distinct by (signed, written, slicing, mode)"
	Ev.Component("pwr.ValidatingPool.GetWriter, drip.Writer, onclose.Writer, blockValidator, AggregateWounds, ComputeHashInfo", "real")
	Ev.Component("inner pool (recording), wound consumer, write slicing, goroutine schedule", "simulated")
	Prop(t, "C18", func(rt *rapid.T) {
		// a small build; the file under test is one of its files
		nfiles := rapid.IntRange(1, 3).Draw(rt, "nfiles")
		tree := Tree{}
		bigCase := rapid.IntRange(0, 11).Draw(rt, "bigsigned") == 0
		// "spill": a file that ends on a block boundary is written with the leading blocks of the file
		// that follows it in the signature appended
		spill := -1
		if !bigCase && rapid.IntRange(0, 7).Draw(rt, "spill") == 0 {
			if nfiles < 2 {
				nfiles = 2
			}
			spill = rapid.IntRange(0, nfiles-2).Draw(rt, "spillfile")
		}
		for i := 0; i < nfiles; i++ {
			sz := genSize(rt, GenOpts{MaxMid: 300 * KiB}, "signed")
			if bigCase && i == 0 {
				sz = 4*MiB + rapid.IntRange(1, 5).Draw(rt, "bigblocks")*BlockSize + rapid.IntRange(0, 3).Draw(rt, "bigtail")*1000
			}
			if spill >= 0 && i == spill {
				sz = rapid.IntRange(0, 3).Draw(rt, "spillblocks") * BlockSize
			}
			if spill >= 0 && i == spill+1 && rapid.Bool().Draw(rt, "spillnextbig") {
				sz = 2*BlockSize + rapid.IntRange(0, 2).Draw(rt, "spillnexttail")*777
			}
			tree[fmt.Sprintf("f%d", i)] = &Entry{Kind: KFile, Data: genContent(rt, GenOpts{}, sz, 77, "signed")}
		}
		dir, cleanup := RunDir()
		defer cleanup()
		si := signTree(tree, filepath.Join(dir, "signed"))
		fi := int64(rapid.IntRange(0, nfiles-1).Draw(rt, "fileindex"))
		signed := tree[si.Container.Files[fi].Path].Data
		written, mdesc := mutateWritten(rt, signed)
		if spill >= 0 {
			fi = int64(spill)
			signed = tree[si.Container.Files[fi].Path].Data
			next := tree[si.Container.Files[fi+1].Path].Data
			k := rapid.IntRange(1, 2).Draw(rt, "spillcount") * BlockSize
			if k > len(next) {
				k = len(next)
			}
			written, mdesc = append(append([]byte{}, signed...), next[:k]...), fmt.Sprintf("followed by the first %d bytes of the next signed file", k)
			Ev.ProbeIf(k > 0, "block_aligned_file_written_with_the_next_files_blocks_appended")
		}
		if bigCase && rapid.Bool().Draw(rt, "bigreseed") {
			fi = 0
			signed = tree[si.Container.Files[fi].Path].Data
			written, mdesc = Bytes(12345, len(signed)), "every block replaced (same length)"
		}
		// "flip and keep going": one block in the middle is wrong, every Write is exactly one block
		// and the caller does not stop at the first error (error mode, plain writes)
		flipKeep := false
		if sbl := blocksOf(signed); spill < 0 && !bigCase && len(sbl) >= 3 && rapid.IntRange(0, 11).Draw(rt, "flipkeep") == 0 {
			flipKeep = true
			k := rapid.IntRange(0, len(sbl)-2).Draw(rt, "flipkeepblock")
			w := append([]byte{}, signed...)
			w[k*BlockSize+rapid.IntRange(0, BlockSize-1).Draw(rt, "flipkeepoff")] ^= 0x21
			written, mdesc = w, fmt.Sprintf("one byte of block %d flipped, the caller keeps writing block by block", k)
			Ev.Probe("one_bad_block_then_good_ones_written_block_by_block_after_the_error")
		}
		slice := drawSlicer(rt, "wslice")
		if slice != nil && rapid.Bool().Draw(rt, "bigslices") {
			slice.Edge = BlockSize
			slice.Mode = 3
		}
		mode := rapid.IntRange(0, 2).Draw(rt, "mode") // 0 error, 1 wounds raw, 2 wounds aggregated
		// "tail only": what is written is the short last block of the signed file and nothing else
		// (every byte of it is signed content, one or more positions too early); error mode, plain
		// writes, and the writer is closed twice
		if flipKeep {
			mode = 0
		}
		tailOnly := false
		if sbl := blocksOf(signed); spill < 0 && !bigCase && len(sbl) >= 2 && len(sbl[len(sbl)-1]) < BlockSize && rapid.IntRange(0, 11).Draw(rt, "tailonly") == 0 {
			tailOnly = true
			mode = 0
			written, mdesc = signed[(len(sbl)-1)*BlockSize:], "the short last block of the signed content, alone"
			Ev.Probe("short_last_block_written_alone_and_closed_twice")
		}
		spec := drawSched(rt)

		wb, sb := blocksOf(written), blocksOf(signed)
		firstBad := -1
		for b := range wb {
			if b >= len(sb) || !bytes.Equal(wb[b], sb[b]) {
				firstBad = b
				break
			}
		}
		inner := &recWritePool{Got: map[int64][]byte{}, Closed: map[int64]int{}}
		setup := fmt.Sprintf("signed %d B (%d blocks), written %d B: %s; slicing %s; mode %d; first differing block %d", len(signed), len(sb), len(written), mdesc, slicerDesc(slice), mode, firstBad)

		keepWriting := rapid.Bool().Draw(rt, "keepwriting")
		if !tailOnly && !flipKeep && mode == 0 && nfiles >= 2 && rapid.IntRange(0, 3).Draw(rt, "twowriters") == 0 {
			// two writers of the same pool open at once (lake.WritablePool allows it), fed alternately
			// with the signed content of their files: both must pass intact
			vp := &pwr.ValidatingPool{Pool: inner, Container: si.Container, Signature: si}
			a, b := int64(0), int64(1)
			da, db := tree[si.Container.Files[a].Path].Data, tree[si.Container.Files[b].Path].Data
			var lateClose io.Closer
			if rapid.Bool().Draw(rt, "closetwicefirst") {
				// an earlier writer that is closed twice (deferred Close plus explicit Close)
				w0, e0 := vp.GetWriter(a)
				if e0 == nil {
					w0.Write(tree[si.Container.Files[a].Path].Data)
					w0.Close()
					if rapid.Bool().Draw(rt, "secondcloselate") {
						// ... the second time only after the next writer has been opened
						lateClose = w0
					} else {
						w0.Close()
					}
					inner.Got[a] = nil
				}
			}
			skipA := 0
			wa, ea := vp.GetWriter(a)
			if lateClose != nil {
				lateClose.Close()
				Ev.Probe("earlier_writer_closed_again_while_the_next_one_is_open")
			}
			if nfiles >= 3 && ea == nil && rapid.Bool().Draw(rt, "thirdwriter") {
				// while the first writer is open (holding part of a block), another one comes and goes
				// before the second one is opened
				c := int64(2)
				dc := tree[si.Container.Files[c].Path].Data
				wa.Write(da[:min(len(da), 1000)])
				wc, ec := vp.GetWriter(c)
				if ec != nil {
					Violation(rt, "C18/getwriter", "GetWriter: %v", ec)
					return
				}
				_, e1 := wc.Write(dc)
				e2 := wc.Close()
				if e1 != nil || e2 != nil || !bytes.Equal(inner.Got[c], dc) {
					Violation(rt, "C18/concurrent-writers", "a writer opened and closed while another one was open: signed content of file %d rejected or altered (write %v, close %v, %d/%d bytes)", c, e1, e2, len(inner.Got[c]), len(dc))
					return
				}
				skipA = min(len(da), 1000)
				Ev.Probe("writer_opened_and_closed_while_another_is_open")
			}
			wb, eb := vp.GetWriter(b)
			if ea != nil || eb != nil {
				Violation(rt, "C18/getwriter", "GetWriter: %v %v", ea, eb)
				return
			}
			oa, ob := skipA, 0
			step := func(w io.Writer, d []byte, o *int) error {
				if *o >= len(d) {
					return nil
				}
				n := len(d) - *o
				if n > 2*BlockSize {
					n = 2 * BlockSize
				}
				if slice != nil {
					n = slice.Next(n)
				}
				_, err := w.Write(d[*o : *o+n])
				*o += n
				return err
			}
			for oa < len(da) || ob < len(db) {
				if err := step(wa, da, &oa); err != nil {
					Violation(rt, "C18/concurrent-writers", "two writers open at once: write of signed bytes of file %d ending at %d rejected: %v", a, oa, err)
					return
				}
				if err := step(wb, db, &ob); err != nil {
					Violation(rt, "C18/concurrent-writers", "two writers open at once: write of signed bytes of file %d ending at %d rejected: %v", b, ob, err)
					return
				}
			}
			if e1, e2 := wa.Close(), wb.Close(); e1 != nil || e2 != nil {
				Violation(rt, "C18/concurrent-writers", "two writers open at once: close errors %v / %v on signed content", e1, e2)
				return
			}
			if !bytes.Equal(inner.Got[a], da) || !bytes.Equal(inner.Got[b], db) {
				Violation(rt, "C18/concurrent-writers", "two writers open at once: inner pool content differs from the signed content (file %d: %d/%d bytes, file %d: %d/%d bytes)", a, len(inner.Got[a]), len(da), b, len(inner.Got[b]), len(db))
				return
			}
			Ev.Probe("two_writers_open_at_once")
			Ev.Eval(fnv64(da, db, []byte(slicerDesc(slice)), []byte("two")), true, func() interface{} {
				return map[string]interface{}{"setup": fmt.Sprintf("two writers interleaved, files of %d and %d bytes, slicing %s", len(da), len(db), slicerDesc(slice))}
			})
			return
		}
		if !tailOnly && !flipKeep && mode == 0 && rapid.IntRange(0, 3).Draw(rt, "viacopy") == 0 {
			// the data is fed with io.Copy from a reader (which uses the writer's ReadFrom if it has
			// one) that may return short reads and its last bytes together with io.EOF
			vp := &pwr.ValidatingPool{Pool: inner, Container: si.Container, Signature: si}
			w, err := vp.GetWriter(fi)
			if err != nil {
				Violation(rt, "C18/getwriter", "GetWriter: %v", err)
				return
			}
			src := NewSliceReader(written, rapid.IntRange(0, 4).Draw(rt, "copyslicing"), rapid.Uint64().Draw(rt, "copysliceseed"), false, rapid.Bool().Draw(rt, "copyeofwith"))
			_, cperr := io.Copy(w, src)
			cerr := w.Close()
			if firstBad < 0 {
				if cperr != nil || cerr != nil {
					Violation(rt, "C18/good-data-rejected", "io.Copy of content equal to the signed content (or a block-aligned prefix) was rejected: copy err %v, close err %v (%s)", cperr, cerr, setup)
					return
				}
				if !bytes.Equal(inner.Got[fi], written) {
					Violation(rt, "C18/good-data-altered", "after io.Copy the inner pool holds %d bytes, %d were written (first diff %d) (%s)", len(inner.Got[fi]), len(written), firstDiff(inner.Got[fi], written), setup)
					return
				}
			} else {
				if cperr == nil && cerr == nil {
					Violation(rt, "C18/bad-data-accepted", "io.Copy and Close succeeded although block %d differs from the signed block (%s)", firstBad, setup)
					return
				}
				want := written[:firstBad*BlockSize]
				if !bytes.Equal(inner.Got[fi], want) {
					Violation(rt, "C18/bad-data-reached-pool", "after the failed io.Copy (copy err %v, close err %v) the inner pool holds %d bytes; exactly the %d bytes before differing block %d should have reached it (%s)", cperr, cerr, len(inner.Got[fi]), len(want), firstBad, setup)
					return
				}
			}
			Ev.Probe("data_fed_with_io_copy")
			Ev.Eval(fnv64(signed, written, []byte("copy")), firstBad >= 0, func() interface{} { return map[string]interface{}{"setup": "io.Copy: " + setup} })
			return
		}
		if mode == 0 {
			vp := &pwr.ValidatingPool{Pool: inner, Container: si.Container, Signature: si}
			w, err := vp.GetWriter(fi)
			if err != nil {
				Violation(rt, "C18/getwriter", "GetWriter: %v", err)
				return
			}
			off, failedAt, calls := 0, -1, 0
			var failErr error
			// (sometimes every Write is exactly one block, or two: each call then starts on a block
			// boundary with nothing buffered, and a refused block is the last one of its call)
			wholeBlocks := 0
			if rapid.IntRange(0, 5).Draw(rt, "wholeblockwrites") == 0 {
				wholeBlocks = rapid.IntRange(1, 2).Draw(rt, "wholeblocksper")
			}
			if flipKeep {
				wholeBlocks, keepWriting = 1, true
			}
			for off < len(written) {
				n := len(written) - off
				if n > 3*BlockSize {
					n = 3 * BlockSize
				}
				if wholeBlocks > 0 {
					n = min(n, wholeBlocks*BlockSize)
				} else if slice != nil {
					n = slice.Next(n)
				}
				calls++
				_, werr := w.Write(written[off : off+n])
				end := off + n
				if werr != nil {
					failedAt, failErr = end, werr
					if keepWriting {
						// a caller that does not stop at the first error: nothing more may get through
						for o2 := end; o2 < len(written); {
							n2 := len(written) - o2
							if n2 > 3*BlockSize {
								n2 = 3 * BlockSize
							}
							if wholeBlocks > 0 {
								n2 = min(n2, wholeBlocks*BlockSize)
							} else if slice != nil {
								n2 = slice.Next(n2)
							}
							w.Write(written[o2 : o2+n2])
							o2 += n2
						}
						Ev.Probe("writes_continued_after_failed_write")
					}
					break
				}
				// this call completed blocks up to end/BlockSize; none of them may be bad
				if firstBad >= 0 && (firstBad+1)*BlockSize <= end && len(wb[firstBad]) == BlockSize {
					Violation(rt, "C18/bad-block-accepted", "Write ending at offset %d completed differing block %d but returned nil (%s)", end, firstBad, setup)
					return
				}
				off = end
			}
			cerr := w.Close()
			if rapid.Bool().Draw(rt, "closeagain") || tailOnly {
				// the usual "defer w.Close()" after an explicit Close: whatever the first Close refused
				// stays refused, whatever it delivered is not delivered again
				if p := Recover(func() { w.Close() }); p != "" {
					Violation(rt, "C18/second-close-panic", "a second Close of an error-mode writer panicked: %s (%s)", p, setup)
					return
				}
				Ev.Probe("writer_closed_twice")
			}
			if firstBad < 0 {
				if failErr != nil || cerr != nil {
					Violation(rt, "C18/good-data-rejected", "content equal to the signed content (or a block-aligned prefix) was rejected: write err %v, close err %v (%s)", failErr, cerr, setup)
					return
				}
				if !bytes.Equal(inner.Got[fi], written) {
					Violation(rt, "C18/good-data-altered", "inner pool received %d bytes, %d were written (first diff %d) (%s)", len(inner.Got[fi]), len(written), firstDiff(inner.Got[fi], written), setup)
					return
				}
			} else {
				full := len(wb[firstBad]) == BlockSize
				if failErr != nil {
					// the failing write must be the one that completes the first bad block
					if !full || failedAt < (firstBad+1)*BlockSize || failedAt-((failedAt-1)%BlockSize+1) >= (firstBad+1)*BlockSize && false {
						if !full || failedAt < (firstBad+1)*BlockSize {
							Violation(rt, "C18/failed-too-early", "Write ending at offset %d failed (%v) but the first differing block %d is not complete before offset %d (%s)", failedAt, failErr, firstBad, (firstBad+1)*BlockSize, setup)
							return
						}
					}
				} else if cerr == nil {
					Violation(rt, "C18/bad-data-accepted", "all writes and Close succeeded although block %d differs from the signed block (%s)", firstBad, setup)
					return
				} else if full {
					Violation(rt, "C18/bad-block-accepted", "differing full block %d was only rejected at Close (%s)", firstBad, setup)
					return
				}
				want := written[:firstBad*BlockSize]
				if !bytes.Equal(inner.Got[fi], want) {
					Violation(rt, "C18/bad-data-reached-pool", "after the failure (write err %v, close err %v) the inner pool holds %d bytes; exactly the %d bytes before differing block %d should have reached it (%s)", failErr, cerr, len(inner.Got[fi]), len(want), firstBad, setup)
					return
				}
			}
			Ev.ProbeIf(failErr != nil, "error_from_write")
			Ev.ProbeIf(failErr == nil && cerr != nil, "error_from_close")
		} else {
			// wound mode, scheduled
			if rapid.IntRange(0, 4).Draw(rt, "innerclosefails") == 0 {
				inner.FailClose = true
				Ev.Fault("inner_pool_close_error", 1)
			}
			var entries []*pwr.Wound
			var werr, cerr error
			s := &Sched{Spec: spec, MaxSteps: 200000}
			s.Run(t, func() {
				ch := make(chan *pwr.Wound)
				vp := &pwr.ValidatingPool{Pool: inner, Container: si.Container, Signature: si, Wounds: ch}
				if mode == 2 {
					vp.WoundsFilter = func(w chan *pwr.Wound) chan *pwr.Wound { return pwr.AggregateWounds(w, 4*MiB) }
				}
				doneC := make(chan struct{})
				stop := make(chan struct{})
				go func() {
					defer close(doneC)
					for {
						select {
						case w := <-ch:
							s.Yield("woundconsumer")
							entries = append(entries, w)
						case <-stop:
							// the writer is closed: whatever was going to be said about the file has been
							// said (a sender that turns up later than this finds nobody)
							for {
								select {
								case w := <-ch:
									entries = append(entries, w)
								default:
									return
								}
							}
						}
					}
				}()
				w, err := vp.GetWriter(fi)
				if err != nil {
					werr = err
					close(stop)
					<-doneC
					return
				}
				off := 0
				for off < len(written) {
					n := len(written) - off
					if n > 3*BlockSize {
						n = 3 * BlockSize
					}
					if slice != nil {
						n = slice.Next(n)
					}
					if _, e := w.Write(written[off : off+n]); e != nil {
						werr = e
						break
					}
					off += n
				}
				cerr = w.Close()
				close(stop)
				<-doneC
			})
			if s.BudgetExceeded {
				return
			}
			if s.Stuck || s.Panic != "" {
				Violation(rt, "C18/wound-mode-stuck", "wound mode: stuck=%v panic=%s (%s)\n%s", s.Stuck, s.Panic, setup, s.StuckStacks)
				return
			}
			if inner.FailClose && werr == nil {
				// the error of the inner pool is the caller's to see; what was emitted for the file is
				// judged as always
				if cerr == nil {
					Violation(rt, "C18/inner-close-error-lost", "wound mode: the inner pool's writer failed to close, Close of the validating writer returned nil (%s)", setup)
					return
				}
				cerr = nil
			}
			if werr != nil || cerr != nil {
				Violation(rt, "C18/wound-mode-error", "wound mode returned errors: write %v close %v (%s)", werr, cerr, setup)
				return
			}
			if !bytes.Equal(inner.Got[fi], written) {
				Violation(rt, "C18/wound-mode-data-altered", "wound mode: inner pool received %d bytes, %d written (%s)", len(inner.Got[fi]), len(written), setup)
				return
			}
			limit := int64(len(signed))
			if int64(len(wb))*BlockSize < limit {
				limit = int64(len(wb)) * BlockSize
			}
			pos := int64(0)
			for i, e := range entries {
				if e.Index != fi {
					Violation(rt, "C18/wound-wrong-file", "entry %d names file %d, written file is %d", i, e.Index, fi)
					return
				}
				if e.Start >= int64(len(signed)) {
					continue // beyond the signed length: outside the tiling clause
				}
				if e.Start != pos {
					Violation(rt, "C18/wound-tiling", "entry %d is [%d,%d) but the previous ones end at %d: gap, overlap or disorder (%s)\nentries %v", i, e.Start, e.End, pos, setup, woundEntries(entries))
					return
				}
				if e.End <= e.Start {
					Violation(rt, "C18/wound-tiling", "entry %d has empty or inverted range [%d,%d) (%s)", i, e.Start, e.End, setup)
					return
				}
				// kind must match every block it covers
				for b := e.Start / BlockSize; b*BlockSize < e.End && int(b) < len(wb); b++ {
					differs := int(b) >= len(sb) || !bytes.Equal(wb[b], sb[b])
					if differs != (e.Kind == pwr.WoundKind_FILE) {
						Violation(rt, "C18/wound-kind", "block %d differs=%v but is covered by a %v entry [%d,%d) (%s)\nentries %v", b, differs, e.Kind, e.Start, e.End, setup, woundEntries(entries))
						return
					}
				}
				pos = e.End
			}
			if pos < limit {
				Violation(rt, "C18/wound-tiling", "entries cover [0,%d) only; written range up to the signed length is [0,%d) (%s)\nentries %v", pos, limit, setup, woundEntries(entries))
				return
			}
			Ev.ProbeIf(s.Leaked, "goroutines_left_blocked_after_close")
		}
		Ev.Eval(fnv64(signed, written, []byte(slicerDesc(slice)), []byte{byte(mode)}), firstBad >= 0, func() interface{} {
			return map[string]interface{}{"setup": setup}
		})
	})
}

func woundEntries(ws []*pwr.Wound) []string {
	var out []string
	for i, w := range ws {
		if i > 14 {
			out = append(out, "…")
			break
		}
		out = append(out, fmt.Sprintf("%s[%d,%d)", w.Kind, w.Start, w.End))
	}
	return out
}
