package sim

import (
	"bytes"
	"context"
	"fmt"
	"os"
	"path/filepath"
	"testing"

	"github.com/itchio/lake/pools/fspool"
	"github.com/itchio/lake/tlc"
	"github.com/itchio/wharf/pwr"
	"github.com/itchio/wharf/wsync"
	"pgregory.net/rapid"
)

// containerMatchesTree checks that a container describes exactly the tree (paths, kinds, sizes,
// symlink destinations).
func containerMatchesTree(c *tlc.Container, t Tree) string {
	seen := map[string]bool{}
	for _, f := range c.Files {
		e, ok := t[f.Path]
		if !ok || e.Kind != KFile {
			return fmt.Sprintf("container file %q is not a file of the build", f.Path)
		}
		if int64(len(e.Data)) != f.Size {
			return fmt.Sprintf("container file %q size %d, build has %d", f.Path, f.Size, len(e.Data))
		}
		seen[f.Path] = true
	}
	for _, d := range c.Dirs {
		e, ok := t[d.Path]
		if !ok || e.Kind != KDir {
			return fmt.Sprintf("container dir %q is not a dir of the build", d.Path)
		}
		seen[d.Path] = true
	}
	for _, s := range c.Symlinks {
		e, ok := t[s.Path]
		if !ok || e.Kind != KLink || e.Dest != s.Dest {
			return fmt.Sprintf("container symlink %q -> %q does not match the build", s.Path, s.Dest)
		}
		seen[s.Path] = true
	}
	for p := range t {
		if !seen[p] {
			return fmt.Sprintf("build entry %q missing from container", p)
		}
	}
	return ""
}

func filesInContainerOrder(c *tlc.Container, t Tree) [][]byte {
	var out [][]byte
	for _, f := range c.Files {
		if e, ok := t[f.Path]; ok {
			out = append(out, e.Data)
		} else {
			out = append(out, nil)
		}
	}
	return out
}

func compareHashes(what string, got []wsync.BlockHash, want []RefHash) string {
	if len(got) != len(want) {
		return fmt.Sprintf("%s: %d block hashes, expected %d", what, len(got), len(want))
	}
	for i := range want {
		g, w := got[i], want[i]
		if g.FileIndex != w.FileIndex || g.BlockIndex != w.BlockIndex || g.WeakHash != w.Weak || !bytes.Equal(g.StrongHash, w.Strong) || g.ShortSize != w.ShortSize {
			return fmt.Sprintf("%s: hash %d is (file %d block %d weak %08x short %d strong %x), expected (file %d block %d weak %08x short %d strong %x)",
				what, i, g.FileIndex, g.BlockIndex, g.WeakHash, g.ShortSize, g.StrongHash, w.FileIndex, w.BlockIndex, w.Weak, w.ShortSize, w.Strong)
		}
	}
	return ""
}

// TestC04: the signature produced at diff time and the one computed stand-alone both equal an
// independently recomputed signature; a pristine copy validates without wounds.
func TestC04(t *testing.T) {
	Ev.Rule = "generated builds (boundary sizes, empty files, many tiny files, symlinks, empty dirs) x compression x both signature producers x schedules/read slicing; non-trivial = build has >= 1 file; distinct by (tree, compression, slicing, schedule log)"
	Ev.Component("WritePatch sign pipeline (multiread, pipe, bufio scanner + splitfunc), ComputeSignature, ReadSignature, Validate/AssertValid", "real")
	Ev.Component("source pool, signature source, writers", "simulated (short reads, park points)")
	Prop(t, "C04", func(rt *rapid.T) {
		o := GenOpts{Big: true, Links: true, EmptyDirs: true, LowEntropy: true}
		pair := GenPair(rt, o)
		if rapid.IntRange(0, 9).Draw(rt, "manytiny") == 0 {
			n := rapid.IntRange(50, 250).Draw(rt, "ntiny")
			lowAlpha := rapid.Bool().Draw(rt, "tinylowalphabet")
			for i := 0; i < n; i++ {
				sz := []int{0, 1, 7, 100}[i%4]
				data := Bytes(uint64(i)+pair.PoolSeed, sz)
				if lowAlpha {
					// short blocks over a tiny alphabet: different blocks of equal length with the same
					// weak hash (e.g. {1,0,1} and {0,2,0}) become common
					sz = 2 + i%5
					data = make([]byte, sz)
					r := NewRng(uint64(i)*977 + pair.PoolSeed)
					for k := range data {
						data[k] = byte(r.Intn(3))
					}
				}
				pair.New[fmt.Sprintf("tiny/t%03d", i)] = &Entry{Kind: KFile, Data: data}
			}
			Ev.ProbeIf(lowAlpha, "many_tiny_low_alphabet_files(weak_hash_collisions)")
			pair.New.Normalize()
			Ev.Probe("many_tiny_files")
		}
		comp := GenCompression(rt)
		srcSlice := drawSlicer(rt, "srcslice")
		sigSlice := drawSlicer(rt, "sigslice")
		poolSlice := drawSlicer(rt, "poolslice")
		spec := drawSched(rt)
		eofWith := rapid.Bool().Draw(rt, "eofwith")
		// (and an empty read now and then: legal for an io.Reader, if discouraged)
		zeroReads := rapid.SampledFrom([]int{0, 0, 0, 2, 3, 7}).Draw(rt, "zeroreads")
		sigViaFile := rapid.Bool().Draw(rt, "sigviafile")

		dir, cleanup := RunDir()
		defer cleanup()
		oldDir, newDir := filepath.Join(dir, "old"), filepath.Join(dir, "new")
		Must(pair.Old.Materialize(oldDir), "materialize old")
		Must(pair.New.Materialize(newDir), "materialize new")

		// producer 1: diff-time signing under the scheduler
		s := &Sched{Spec: spec, MaxSteps: 200000}
		var dr *DiffResult
		s.Run(t, func() {
			dr = Diff(oldDir, newDir, comp, DiffSeams{SourceSlice: srcSlice, Yield: s.Yield, EOFWith: eofWith, ZeroReads: zeroReads, SigViaFile: sigViaFile})
		})
		if s.BudgetExceeded {
			return
		}
		if s.Stuck || s.Panic != "" || dr.Panic != "" || dr.Err != nil {
			Violation(rt, "C04/diff-failed", "WritePatch failed: stuck=%v panic=%q%q err=%v", s.Stuck, s.Panic, dr.Panic, dr.Err)
			return
		}
		if srcSlice != nil {
			Ev.Fault("short_read_source_pool", srcSlice.Cuts)
		}

		// read it back through wharf's reader (over a slicing source) ...
		src, _ := NewSource(dr.Sig, sigSlice, nil)
		_, resErr := src.Resume(nil) // callers of ReadSignature resume the source first (see wharf's own tests)
		Must(resErr, "resume signature source")
		var si *pwr.SignatureInfo
		var rerr error
		if p := Recover(func() { si, rerr = pwr.ReadSignature(context.Background(), src) }); p != "" || rerr != nil {
			Violation(rt, "C04/read-signature-failed", "ReadSignature on the diff-time signature: err=%v panic=%s (comp %s)", rerr, p, CompString(comp))
			return
		}
		if sigSlice != nil {
			Ev.Fault("short_read_signature_source", sigSlice.Cuts)
		}
		if d := containerMatchesTree(si.Container, pair.New); d != "" {
			Violation(rt, "C04/container-mismatch", "signature container: %s", d)
			return
		}
		want := RefSignatureOf(filesInContainerOrder(si.Container, pair.New))
		if d := compareHashes("diff-time signature (ReadSignature)", si.Hashes, want); d != "" {
			Violation(rt, "C04/diff-time-hashes", "%s (comp %s)", d, CompString(comp))
			return
		}
		// ... and through the independent decoder: stored entries are (weak,strong) only
		rs, derr := DecodeSignature(dr.Sig)
		if derr != nil {
			Violation(rt, "C04/undecodable-signature", "independent decoder: %v", derr)
			return
		}
		if len(rs.Hashes) != len(want) {
			Violation(rt, "C04/stored-hash-count", "signature stream stores %d hashes, expected %d", len(rs.Hashes), len(want))
			return
		}
		for i, h := range rs.Hashes {
			if h.WeakHash != want[i].Weak || !bytes.Equal(h.StrongHash, want[i].Strong) {
				Violation(rt, "C04/stored-hash", "stored hash %d differs from recomputed", i)
				return
			}
		}

		// producer 2: stand-alone signing through a slicing pool
		c2 := Walk(newDir)
		sp := &Pool{Inner: fspool.New(c2, newDir), Name: "signpool", Slice: poolSlice}
		var h2 []wsync.BlockHash
		var serr error
		if p := Recover(func() { h2, serr = pwr.ComputeSignature(context.Background(), c2, sp, Quiet()) }); p != "" || serr != nil {
			Violation(rt, "C04/compute-signature-failed", "ComputeSignature: err=%v panic=%s", serr, p)
			return
		}
		if poolSlice != nil {
			Ev.Fault("short_read_sign_pool", poolSlice.Cuts)
		}
		want2 := RefSignatureOf(filesInContainerOrder(c2, pair.New))
		if d := compareHashes("stand-alone signature (ComputeSignature)", h2, want2); d != "" {
			Violation(rt, "C04/standalone-hashes", "%s", d)
			return
		}

		// validation of the pristine build: no wound, no error (scheduled)
		woundsPath := filepath.Join(dir, "wounds.pww")
		s2 := &Sched{Spec: spec, MaxSteps: 200000}
		var verr, aerr error
		s2.Run(t, func() {
			vctx := &pwr.ValidatorContext{WoundsPath: woundsPath, Consumer: Quiet()}
			verr = vctx.Validate(context.Background(), newDir, si)
			if verr == nil && vctx.WoundsConsumer.HasWounds() {
				verr = fmt.Errorf("HasWounds() is true on a pristine build (TotalCorrupted=%d)", vctx.WoundsConsumer.TotalCorrupted())
			}
			aerr = pwr.AssertValid(newDir, si)
		})
		if s2.BudgetExceeded {
			return
		}
		if s2.Stuck || s2.Panic != "" {
			Violation(rt, "C04/validate-stuck", "Validate on pristine build: stuck=%v panic=%s\n%s", s2.Stuck, s2.Panic, s2.StuckStacks)
			return
		}
		if verr != nil {
			Violation(rt, "C04/pristine-wounded", "Validate(wounds file) on a pristine build: %v", verr)
			return
		}
		if _, err := os.Stat(woundsPath); err == nil {
			b, _ := os.ReadFile(woundsPath)
			_, ws, _ := DecodeWounds(b)
			Violation(rt, "C04/pristine-wounds-file", "a wounds file with %d wounds was written for a pristine build: %v", len(ws), ws)
			return
		}
		if aerr != nil {
			Violation(rt, "C04/pristine-assert", "AssertValid on a pristine build: %v", aerr)
			return
		}

		// one ValidatorContext used for two different builds in a row (old build against its own
		// signature, then the new build against its own): nothing may carry over
		oc, oh, oerr := ComputeSig(oldDir)
		Must(oerr, "signature of old build")
		reused := &pwr.ValidatorContext{FailFast: true, Consumer: Quiet()}
		if e1 := reused.Validate(context.Background(), oldDir, &pwr.SignatureInfo{Container: oc, Hashes: oh}); e1 != nil {
			Violation(rt, "C04/pristine-assert", "fail-fast validation of the pristine old build: %v", e1)
			return
		}
		if e2 := reused.Validate(context.Background(), newDir, si); e2 != nil {
			Violation(rt, "C04/context-reuse", "the same ValidatorContext, used for the old build and then for the pristine new build, rejects the new build: %v", e2)
			return
		}

		// one SignatureInfo value kept for a folder whose content changes while its layout does not
		// (same container, same number of hashes): after its Hashes were brought up to date, the
		// folder validates against it
		var victim string
		for _, p := range pair.New.Files() {
			if len(pair.New[p].Data) > 0 {
				victim = p
				break
			}
		}
		if victim != "" && rapid.IntRange(0, 2).Draw(rt, "refreshsignature") == 0 {
			nd := append([]byte{}, pair.New[victim].Data...)
			pos := rapid.IntRange(0, len(nd)-1).Draw(rt, "refreshpos")
			nd[pos] ^= 0x5a
			Must(os.WriteFile(filepath.Join(newDir, victim), nd, os.FileMode(0o644)), "rewrite a file of the new build")
			var h3 []wsync.BlockHash
			var rerr error
			if p := Recover(func() {
				h3, rerr = pwr.ComputeSignature(context.Background(), si.Container, fspool.New(si.Container, newDir), Quiet())
			}); p != "" || rerr != nil {
				Violation(rt, "C04/compute-signature-failed", "ComputeSignature after a same-size rewrite: err=%v panic=%s", rerr, p)
				return
			}
			si.Hashes = h3
			if e := pwr.AssertValid(newDir, si); e != nil {
				Violation(rt, "C04/refreshed-signature", "a SignatureInfo that validated the build once, then had its Hashes replaced by those of the folder's present content (same container, byte %d of %s changed), rejects the undamaged folder: %v", pos, victim, e)
				return
			}
			Ev.Probe("signature_info_reused_with_refreshed_hashes")
		}

		nfiles := len(pair.New.Files())
		for _, p := range pair.New.Files() {
			n := len(pair.New[p].Data)
			Ev.ProbeIf(n > 0 && n%BlockSize == 0, "file_size_multiple_of_64KiB")
			Ev.ProbeIf(n == 0, "empty_file")
		}
		h := pair.New.Hash() ^ fnv64([]byte(CompString(comp)), []byte(slicerDesc(srcSlice)+slicerDesc(sigSlice)+slicerDesc(poolSlice))) ^ s.LogHash() ^ s2.LogHash()*3
		Ev.Eval(h, nfiles > 0, func() interface{} {
			return map[string]interface{}{
				"build": pair.New.Describe(), "compression": CompString(comp), "hashes": len(want),
				"slicing":  fmt.Sprintf("src=%s sig=%s pool=%s", slicerDesc(srcSlice), slicerDesc(sigSlice), slicerDesc(poolSlice)),
				"schedule": s.Trace(30), "validate_schedule": s2.Trace(30),
			}
		})
	})
}
