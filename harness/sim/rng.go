package sim

// Rng is a private splitmix64 generator. Everything that is not drawn directly from rapid
// (file contents, read slicing, scheduler fallback) is expanded from a rapid-drawn seed
// through this, so that one rapid bit stream decides the whole run and replay is exact.
type Rng struct{ s uint64 }

func NewRng(seed uint64) *Rng { return &Rng{s: seed*0x9E3779B97F4A7C15 + 0x1234567} }

func (r *Rng) U64() uint64 {
	r.s += 0x9E3779B97F4A7C15
	z := r.s
	z = (z ^ (z >> 30)) * 0xBF58476D1CE4E5B9
	z = (z ^ (z >> 27)) * 0x94D049BB133111EB
	return z ^ (z >> 31)
}

// Intn returns a value in [0,n). n must be > 0.
func (r *Rng) Intn(n int) int {
	if n <= 1 {
		return 0
	}
	return int(r.U64() % uint64(n))
}

func (r *Rng) Fill(p []byte) {
	i := 0
	for ; i+8 <= len(p); i += 8 {
		v := r.U64()
		p[i] = byte(v)
		p[i+1] = byte(v >> 8)
		p[i+2] = byte(v >> 16)
		p[i+3] = byte(v >> 24)
		p[i+4] = byte(v >> 32)
		p[i+5] = byte(v >> 40)
		p[i+6] = byte(v >> 48)
		p[i+7] = byte(v >> 56)
	}
	if i < len(p) {
		v := r.U64()
		for ; i < len(p); i++ {
			p[i] = byte(v)
			v >>= 8
		}
	}
}

// Bytes returns n high-entropy bytes determined by seed.
func Bytes(seed uint64, n int) []byte {
	p := make([]byte, n)
	NewRng(seed).Fill(p)
	return p
}

// LowEntropy returns n bytes over an alphabet of the given size with a tendency to repeat
// earlier material (periodic / self-similar data, the hard case for suffix sorting and for
// weak-hash collisions).
func LowEntropy(seed uint64, n int, alphabet int) []byte {
	if alphabet < 1 {
		alphabet = 1
	}
	r := NewRng(seed)
	p := make([]byte, n)
	i := 0
	for i < n {
		if i > 4 && r.Intn(3) == 0 {
			// copy a run from earlier
			l := 1 + r.Intn(32)
			from := r.Intn(i)
			for k := 0; k < l && i < n; k++ {
				p[i] = p[from+k%(i-from)]
				i++
			}
			continue
		}
		p[i] = byte('a' + r.Intn(alphabet))
		i++
	}
	return p
}

func fnv64(parts ...[]byte) uint64 {
	h := uint64(14695981039346656037)
	for _, p := range parts {
		for _, b := range p {
			h ^= uint64(b)
			h *= 1099511628211
		}
		h ^= 0xff
		h *= 1099511628211
	}
	return h
}

// Sparse returns n bytes that are v with probability 1/v and zero otherwise: the sum over any window
// of 65536 bytes hovers around 65536.
func Sparse(seed uint64, n int, v int) []byte {
	r := NewRng(seed)
	p := make([]byte, n)
	for i := range p {
		if r.Intn(v) == 0 {
			p[i] = byte(v)
		}
	}
	return p
}

// NeutralBlocks returns n bytes of otherwise random content in which every aligned block of bs bytes
// ends with the byte c and has a byte sum that is a multiple of 65536: sliding a window of that
// size by one byte from just before such a block onto it leaves the rsync rolling checksum
// unchanged (the byte leaving equals the byte entering, the sum term does not move).
func NeutralBlocks(seed uint64, n int, bs int, c byte) []byte {
	p := Bytes(seed, n)
	for start := 0; start+bs <= n; start += bs {
		blk := p[start : start+bs]
		blk[bs-1] = c
		// re-assign up to 300 bytes spread over the block so that the sum comes out right
		pos := func(i int) int { return (7 + i*211) % (bs - 1) }
		k := 300
		if bs < 1000 {
			k = bs / 2
		}
		for i := 0; i < k; i++ {
			blk[pos(i)] = 0
		}
		sum := 0
		for _, v := range blk {
			sum += int(v)
		}
		need := (65536 - sum%65536) % 65536
		for i := 0; i < k && need > 0; i++ {
			v := need
			if v > 255 {
				v = 255
			}
			blk[pos(i)] = byte(v)
			need -= v
		}
	}
	return p
}
