package sim

import (
	"bytes"
	"context"
	"fmt"
	"path/filepath"
	"runtime"
	"testing"

	"github.com/itchio/wharf/archiver"
	"github.com/itchio/wharf/pwr"
	"pgregory.net/rapid"
)

// TestC15: diffing (and optimizing with fixed parameters) is deterministic under every schedule,
// read slicing and map iteration order tried.
func TestC15(t *testing.T) {
	Ev.Rule = "generated build pairs; each pair is diffed 4 times under different drawn schedules / read slicings and once free-running; each plain patch is optimized 3 times with the same parameters under different schedules and map iteration orders; outputs must be byte-identical; non-trivial = pair has >= 1 new file with content; distinct by (pair, compression, knobs)"
	Ev.Component("WritePatch (diff ∥ sign ∥ fan-out), rediff.Optimize (analyzePatch, bsdiff workers/dispatcher/collector)", "real")
	Ev.Component("goroutine schedule, select choice, map iteration order, source pool slicing", "simulated; one extra free-running execution per pair")
	Prop(t, "C15", func(rt *rapid.T) {
		pair := GenPair(rt, GenOpts{Links: true, EmptyDirs: true, LowEntropy: true, MaxMid: 200 * KiB, Big: rapid.IntRange(0, 39).Draw(rt, "allowbig") == 0})
		if rapid.IntRange(0, 5).Draw(rt, "tiecase") == 0 {
			// a new file that reuses equally much of two differently named old files: several equally
			// good candidates for the optimizer's mapping
			a := Bytes(rapid.Uint64().Draw(rt, "tieA"), 2*BlockSize+rapid.IntRange(0, 1000).Draw(rt, "tieAextra"))
			b := Bytes(rapid.Uint64().Draw(rt, "tieB"), 2*BlockSize+rapid.IntRange(0, 1000).Draw(rt, "tieBextra"))
			if rapid.Bool().Draw(rt, "tieequalsizes") && len(a) != len(b) {
				b = Bytes(uint64(len(a))+77, len(a)) // the two candidates also have the same size
			}
			pair.Old["tie/a.bin"], pair.Old["tie/b.bin"] = &Entry{Kind: KFile, Data: a}, &Entry{Kind: KFile, Data: b}
			pair.New["tie/a.bin"], pair.New["tie/b.bin"] = &Entry{Kind: KFile, Data: a}, &Entry{Kind: KFile, Data: b}
			z := append(append(append([]byte{}, b[:BlockSize]...), []byte("fresh data in the middle")...), a[:BlockSize]...)
			// the differ only re-finds shifted blocks that are followed by at least one more block of data
			z = append(z, Bytes(rapid.Uint64().Draw(rt, "tieZ"), BlockSize+100)...)
			pair.New["tie/z.bin"] = &Entry{Kind: KFile, Data: z}
			pair.Old.Normalize()
			pair.New.Normalize()
			Ev.Probe("equal_candidates_case")
		}
		if rapid.IntRange(0, 5).Draw(rt, "tiecase2") == 0 {
			// like above, but the new file sits at the path of one of the two candidates (the one with
			// the higher index): "same path wins" and any other tie-break must agree
			a := Bytes(rapid.Uint64().Draw(rt, "tie2A"), 2*BlockSize+rapid.IntRange(0, 1000).Draw(rt, "tie2Aextra"))
			b := Bytes(rapid.Uint64().Draw(rt, "tie2B"), 2*BlockSize+rapid.IntRange(0, 1000).Draw(rt, "tie2Bextra"))
			pair.Old["tie2/a.bin"], pair.Old["tie2/b.bin"] = &Entry{Kind: KFile, Data: a}, &Entry{Kind: KFile, Data: b}
			pair.New["tie2/a.bin"] = &Entry{Kind: KFile, Data: a}
			z := append(append(append([]byte{}, a[:BlockSize]...), []byte("fresh data in the middle")...), b[:BlockSize]...)
			z = append(z, Bytes(rapid.Uint64().Draw(rt, "tie2Z"), BlockSize+100)...)
			pair.New["tie2/b.bin"] = &Entry{Kind: KFile, Data: z}
			pair.Old.Normalize()
			pair.New.Normalize()
			Ev.Probe("equal_candidates_one_is_same_path")
		}
		retryShape := rapid.IntRange(0, 5).Draw(rt, "retryshape") == 0
		if retryShape {
			// two new files of fresh data that sort first: a first attempt is cancelled while it reads
			// one of them, and that read comes back while the retry is busy with the other
			pair.New["0ra/a.bin"] = &Entry{Kind: KFile, Data: Bytes(rapid.Uint64().Draw(rt, "raseed"), 112*KiB)}
			pair.New["0ra/b.bin"] = &Entry{Kind: KFile, Data: Bytes(rapid.Uint64().Draw(rt, "rbseed"), 160*KiB+77)}
			pair.New.Normalize()
		}
		if rapid.IntRange(0, 29).Draw(rt, "manydups") == 0 {
			// a signature of more than 2048 hashes made of many tiny files with few distinct contents:
			// every block exists many times, all over the signature
			n := rapid.IntRange(2100, 2400).Draw(rt, "nmanydups")
			for i := 0; i < n; i++ {
				c := []byte{byte('a' + (i*7)%5), byte('0' + (i*3)%4)}
				pair.Old[fmt.Sprintf("dups/d%04d", i)] = &Entry{Kind: KFile, Data: c}
				if i%9 != 0 {
					pair.New[fmt.Sprintf("dups/d%04d", i)] = &Entry{Kind: KFile, Data: c}
				}
			}
			for i := 0; i < 12; i++ {
				pair.New[fmt.Sprintf("dups/new%02d", i)] = &Entry{Kind: KFile, Data: []byte{byte('a' + (i*7)%5), byte('0' + (i*3)%4)}}
			}
			pair.Old.Normalize()
			pair.New.Normalize()
			Ev.Probe("signature_over_2048_hashes_with_duplicate_blocks")
		}
		comp := GenCompression(rt)
		dir, cleanup := RunDir()
		defer cleanup()
		oldDir, newDir := filepath.Join(dir, "old"), filepath.Join(dir, "new")
		Must(pair.Old.Materialize(oldDir), "materialize old")
		Must(pair.New.Materialize(newDir), "materialize new")

		var refPatch, refSig []byte
		var logs []uint64
		for run := 0; run < 4; run++ {
			spec := drawSched(rt)
			slice := drawSlicer(rt, "srcslice")
			s := &Sched{Spec: spec, MaxSteps: 200000}
			var dr *DiffResult
			prevProcs := runtime.GOMAXPROCS([]int{0, 1, 2, 5}[run])
			eofWith, sigViaFile := rapid.Bool().Draw(rt, "eofwith"), rapid.Bool().Draw(rt, "sigviafile")
			s.Run(t, func() {
				dr = Diff(oldDir, newDir, comp, DiffSeams{SourceSlice: slice, Yield: s.Yield, EOFWith: eofWith, SigViaFile: sigViaFile})
			})
			runtime.GOMAXPROCS(prevProcs)
			if s.BudgetExceeded {
				return
			}
			if s.Stuck || s.Panic != "" || dr.Err != nil || dr.Panic != "" {
				Violation(rt, "C15/diff-failed", "WritePatch run %d: stuck=%v panic=%s%s err=%v", run, s.Stuck, s.Panic, dr.Panic, dr.Err)
				return
			}
			logs = append(logs, s.LogHash())
			if run == 0 {
				refPatch, refSig = dr.Patch, dr.Sig
				continue
			}
			if !bytes.Equal(dr.Patch, refPatch) {
				Violation(rt, "C15/patch-nondeterministic", "patch bytes differ between schedule 0 and schedule %d (len %d vs %d, first diff %d) (comp %s)", run, len(refPatch), len(dr.Patch), firstDiff(refPatch, dr.Patch), CompString(comp))
				return
			}
			if !bytes.Equal(dr.Sig, refSig) {
				Violation(rt, "C15/signature-nondeterministic", "signature bytes differ between schedule 0 and schedule %d (first diff %d)", run, firstDiff(refSig, dr.Sig))
				return
			}
		}
		if rapid.IntRange(0, 2).Draw(rt, "retryaftercancel") == 0 || retryShape {
			// the same DiffContext is used again after a first attempt was cancelled in the middle of
			// a source read; what the first attempt left behind is scheduled along with the retry
			spec := drawSched(rt)
			s := &Sched{Spec: spec, MaxSteps: 400000}
			at := rapid.IntRange(1, 40).Draw(rt, "cancelatread")
			rslice := drawSlicer(rt, "srcslice")
			releaseAt := 0
			if rapid.Bool().Draw(rt, "lateresponse") {
				// the read that was in flight when the first attempt was cancelled comes back while the
				// retry is somewhere else
				releaseAt = rapid.IntRange(1, 60).Draw(rt, "releaseatread")
			}
			if retryShape && rapid.IntRange(0, 3).Draw(rt, "retryaimed") != 0 {
				// (the differ's reader takes 16 KiB at a time: reads 1..7 are a.bin, 8.. are b.bin)
				at, releaseAt, rslice = rapid.IntRange(2, 6).Draw(rt, "aimedcancel"), rapid.IntRange(10, 17).Draw(rt, "aimedrelease"), nil
				Ev.Probe("late_response_of_a_cancelled_diff_arrives_while_the_retry_reads_another_file")
			}
			var dr *DiffResult
			s.Run(t, func() {
				dr = Diff(oldDir, newDir, comp, DiffSeams{SourceSlice: rslice, Yield: s.Yield, CancelFirstAtRead: at, ReleaseFirstAtRead: releaseAt})
			})
			if s.BudgetExceeded {
				return
			}
			if s.Stuck || s.Panic != "" || dr.Panic != "" || dr.Err != nil {
				Violation(rt, "C15/diff-failed", "WritePatch on a DiffContext whose first attempt was cancelled (at source read %d, it returned %v): stuck=%v panic=%s%s err=%v", at, dr.FirstErr, s.Stuck, s.Panic, dr.Panic, dr.Err)
				return
			}
			Ev.ProbeIf(dr.FirstErr != nil, "diff_retried_on_the_same_context_after_cancellation")
			Ev.Fault("cancel_during_diff_then_retry", 1)
			if !bytes.Equal(dr.Patch, refPatch) || !bytes.Equal(dr.Sig, refSig) {
				Violation(rt, "C15/patch-nondeterministic", "a diff retried on the same DiffContext after its first attempt was cancelled (at source read %d, it returned %v) wrote other bytes than a diff from scratch (patch equal %v, first diff %d; signature equal %v) (comp %s)", at, dr.FirstErr, bytes.Equal(dr.Patch, refPatch), firstDiff(refPatch, dr.Patch), bytes.Equal(dr.Sig, refSig), CompString(comp))
				return
			}
		}
		freeSeams := DiffSeams{SourceSlice: NewSlicer(2, pair.PoolSeed)}
		if nf := len(pair.New.Files()); nf >= 2 && rapid.IntRange(0, 3).Draw(rt, "failedfirst") == 0 {
			// a first attempt into the same destinations fails between two files (a file of the new
			// build cannot be opened); once it has returned, nothing more may arrive in them, and the
			// attempt that follows writes what a diff from scratch writes
			freeSeams.FailFirstOpenAt = rapid.IntRange(2, nf).Draw(rt, "failopenat")
		}
		free := Diff(oldDir, newDir, comp, freeSeams)
		if free.FirstRan && free.FirstErr != nil {
			Ev.Fault("diff_failed_between_files_then_retried_into_the_same_writers", 1)
			if free.LateBytes != 0 {
				Violation(rt, "C15/write-after-return", "WritePatch failed (%v) and returned; afterwards %d more bytes arrived in the patch and signature writers it had been given (comp %s)", free.FirstErr, free.LateBytes, CompString(comp))
				return
			}
		}
		if free.Err != nil || free.Panic != "" {
			Violation(rt, "C15/diff-failed", "free-running WritePatch: %v %s", free.Err, free.Panic)
			return
		}
		if !bytes.Equal(free.Patch, refPatch) || !bytes.Equal(free.Sig, refSig) {
			Violation(rt, "C15/patch-nondeterministic", "free-running diff differs from the scheduled ones (patch equal %v, signature equal %v)", bytes.Equal(free.Patch, refPatch), bytes.Equal(free.Sig, refSig))
			return
		}

		// optimizer, fixed parameters
		k := GenKnobs(rt)
		var refOpt []byte
		for run := 0; run < 3; run++ {
			spec := drawSched(rt)
			spec.MapOrder = run // sorted, random permutation, reversed
			s := &Sched{Spec: spec, MaxSteps: 300000}
			var or *OptimizeResult
			// "how many CPUs are available" must not matter: each run sees another GOMAXPROCS
			prevProcs := runtime.GOMAXPROCS([]int{0, 1, 3}[run])
			s.Run(t, func() { or = Optimize(refPatch, oldDir, newDir, k, nil, s.Yield) })
			runtime.GOMAXPROCS(prevProcs)
			if s.BudgetExceeded {
				return
			}
			if s.Stuck || s.Panic != "" || or.Err != nil || or.Panic != "" {
				Violation(rt, "C15/optimize-failed", "Optimize run %d: stuck=%v panic=%s%s err=%v", run, s.Stuck, s.Panic, or.Panic, or.Err)
				return
			}
			logs = append(logs, s.LogHash())
			if run == 0 {
				refOpt = or.Patch
				continue
			}
			if !bytes.Equal(or.Patch, refOpt) {
				d0, _ := DecodePatch(refOpt)
				d1, _ := DecodePatch(or.Patch)
				detail := ""
				if d0 != nil && d1 != nil {
					for i := range d0.Files {
						a, b := d0.Files[i].Bsdiff, d1.Files[i].Bsdiff
						if (a == nil) != (b == nil) || (a != nil && a.TargetIndex != b.TargetIndex) {
							detail += fmt.Sprintf(" file %d (%s): bsdiff target %v vs %v;", i, d0.Source.Files[i].Path, a, b)
						}
					}
				}
				Violation(rt, "C15/optimize-nondeterministic", "optimized patch differs between run 0 and run %d with identical parameters (partitions %d forcemapall %v) (len %d vs %d);%s", run, k.Partitions, k.ForceMapAll, len(refOpt), len(or.Patch), detail)
				return
			}
		}
		if rapid.IntRange(0, 3).Draw(rt, "optimizefails") == 0 {
			// an Optimize that fails because a new-build file cannot be opened: once it has returned,
			// nothing more arrives in the writer it was given
			kf := k
			kf.FailSourceOpenAt = rapid.IntRange(1, 3).Draw(rt, "optfailopenat")
			fr := Optimize(refPatch, oldDir, newDir, kf, nil, nil)
			if fr.Panic != "" {
				Violation(rt, "C15/optimize-failed", "Optimize with a source file that cannot be opened panicked: %s", fr.Panic)
				return
			}
			if fr.Err != nil {
				Ev.Fault("optimize_failed_on_a_source_file", 1)
				if fr.LateBytes != 0 {
					Violation(rt, "C15/write-after-return", "Optimize failed (%v) and returned; afterwards %d more bytes arrived in the patch writer it had been given (output compression %v)", fr.Err, fr.LateBytes, k.Compression)
					return
				}
			}
		}
		distinctLogs := map[uint64]bool{}
		for _, l := range logs {
			distinctLogs[l] = true
		}
		Ev.ProbeIf(len(distinctLogs) >= 3, "pairs_with_3_or_more_distinct_interleavings")
		Ev.Eval(pair.Hash()^fnv64([]byte(CompString(comp)), []byte(fmt.Sprint(k.Partitions, k.ForceMapAll, k.SizeLimit))), pair.New.TotalSize() > 0, func() interface{} {
			m := pair.Sample()
			m["compression"], m["distinct_interleavings_for_this_pair"] = CompString(comp), len(distinctLogs)
			return m
		})
	})
}

// goschedYield returns a seam hook that calls runtime.Gosched with probability 1/3.
func goschedYield(seed uint64) func(string) {
	r := NewRng(seed)
	ch := make(chan struct{}, 1)
	ch <- struct{}{}
	return func(string) {
		<-ch
		y := r.Intn(3) == 0
		ch <- struct{}{}
		if y {
			runtime.Gosched()
		}
	}
}

// TestC15Race runs the concurrent pipelines free-running under the race detector (the binary is
// built with -race; the driver turns any "WARNING: DATA RACE" with a wharf frame into a violation).
// Under the serialising scheduler the detector is blind, hence this separate mode.
func TestC15Race(t *testing.T) {
	Ev.Property = "C15"
	Ev.Rule = "free-running executions (no parking) of diff, optimize, validate+heal, validating pool and zip extraction under the Go race detector at the GOMAXPROCS given by the driver, with seeded short reads and runtime.Gosched at the seams"
	Ev.Component("race detector (go test -race)", "observation under a controlled workload, not schedule control")
	Prop(t, "C15", func(rt *rapid.T) {
		pair := GenPair(rt, GenOpts{Links: true, EmptyDirs: true, LowEntropy: true, MaxMid: 150 * KiB})
		comp := GenCompression(rt)
		seed := rapid.Uint64().Draw(rt, "yieldseed")
		dir, cleanup := RunDir()
		defer cleanup()
		oldDir, newDir := filepath.Join(dir, "old"), filepath.Join(dir, "new")
		Must(pair.Old.Materialize(oldDir), "materialize old")
		Must(pair.New.Materialize(newDir), "materialize new")
		y := goschedYield(seed)
		dr := Diff(oldDir, newDir, comp, DiffSeams{SourceSlice: drawSlicer(rt, "srcslice"), Yield: y})
		if dr.Err != nil || dr.Panic != "" {
			Violation(rt, "C15/diff-failed", "free-running WritePatch: %v %s", dr.Err, dr.Panic)
			return
		}
		if rapid.IntRange(0, 2).Draw(rt, "failingdiff") == 0 {
			// a diff whose source fails in the middle of a file (whatever the compression): it returns
			// an error; the detector watches what its tasks and its clean-up do to each other
			fr := Diff(oldDir, newDir, comp, DiffSeams{SourceSlice: drawSlicer(rt, "failslice"), Yield: y, FailReadAt: rapid.IntRange(1, 30).Draw(rt, "failreadat")})
			if fr.Panic != "" {
				Violation(rt, "C15/diff-failed", "free-running WritePatch with a failing source panicked: %s", fr.Panic)
				return
			}
			Ev.ProbeIf(fr.Err != nil, "diff_failed_in_the_middle_of_a_file_under_the_race_detector")
		}
		or := Optimize(dr.Patch, oldDir, newDir, GenKnobs(rt), nil, y)
		if or.Err != nil || or.Panic != "" {
			Violation(rt, "C15/optimize-failed", "free-running Optimize: %v %s", or.Err, or.Panic)
			return
		}
		outDir := filepath.Join(dir, "out")
		if ar := ApplyFresh(or.Patch, oldDir, outDir, ApplyOpts{}); ar.Err != nil || ar.Panic != "" {
			Violation(rt, "C15/apply-failed", "apply: %v %s", ar.Err, ar.Panic)
			return
		}
		// validate + heal a damaged copy (validator ∥ healer goroutines)
		si := &pwr.SignatureInfo{}
		c, h, err := ComputeSig(newDir)
		Must(err, "sig")
		si.Container, si.Hashes = c, h
		zipPath := filepath.Join(dir, "b.zip")
		zipOf(newDir, zipPath)
		damaged, _ := ApplyFaults(pair.New, GenFaults(rt, pair.New, FaultOpts{Content: true, Delete: true, KindSwap: true, Links: true}))
		target := filepath.Join(dir, "target")
		Must(damaged.Materialize(target), "materialize damaged")
		vctx := &pwr.ValidatorContext{HealPath: "archive," + zipPath, Consumer: Quiet()}
		if verr := vctx.Validate(context.Background(), target, si); verr != nil {
			Violation(rt, "C15/heal-failed", "free-running heal: %v", verr)
			return
		}
		// zip extraction with several workers
		var zb bytes.Buffer
		_, err = archiver.CompressZip(&zb, newDir, Quiet())
		Must(err, "zip")
		conc := rapid.SampledFrom([]int{2, 4, 8, 16}).Draw(rt, "concurrency")
		xdir := filepath.Join(dir, "x")
		if _, xerr := archiver.ExtractZip(&simReaderAt{b: zb.Bytes(), yield: y}, int64(zb.Len()), xdir, archiver.ExtractSettings{Consumer: Quiet(), Concurrency: conc, ResumeFrom: filepath.Join(dir, "r.txt")}); xerr != nil {
			Violation(rt, "C15/extract-failed", "free-running ExtractZip: %v", xerr)
			return
		}
		if d := pair.New.Diff(MustSnapshot(xdir).Tree); d != "" {
			Violation(rt, "C15/extract-wrong", "free-running ExtractZip: %s", d)
			return
		}
		Ev.Eval(pair.Hash()^fnv64([]byte(CompString(comp)), []byte{byte(conc)}), pair.New.TotalSize() > 0, func() interface{} {
			m := pair.Sample()
			m["mode"], m["gomaxprocs"] = "free-running under -race", runtime.GOMAXPROCS(0)
			return m
		})
	})
}
