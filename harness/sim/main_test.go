package sim

import (
	"context"
	"fmt"
	"os"
	"strconv"
	"testing"

	"pgregory.net/rapid"
)

func TestMain(m *testing.M) {
	code := m.Run()
	Ev.Flush()
	os.Exit(code)
}

// Tier returns "quick" or "thorough".
func Tier() string {
	if os.Getenv("VERIF_TIER") == "thorough" {
		return "thorough"
	}
	return "quick"
}

func envInt(name string, def int) int {
	if v := os.Getenv(name); v != "" {
		if n, err := strconv.Atoi(v); err == nil {
			return n
		}
	}
	return def
}

// Prop runs a property under rapid with the harness-error guard. Each property test is one
// rapid.Check; the driver chooses -rapid.seed and -rapid.checks.
func Prop(t *testing.T, id string, f func(rt *rapid.T)) {
	Ev.Property = id
	rapid.Check(t, func(rt *rapid.T) {
		defer func() {
			if r := recover(); r != nil {
				if he, ok := r.(HarnessError); ok {
					fmt.Fprintln(os.Stderr, he.Error())
					Ev.Flush()
					os.Exit(2)
				}
				panic(r)
			}
		}()
		f(rt)
	})
}

// drawSlicer draws a read/write slicing policy.
func drawSlicer(rt *rapid.T, label string) *Slicer {
	mode := rapid.IntRange(0, 4).Draw(rt, label+".mode")
	if mode == 0 {
		return nil
	}
	return NewSlicer(mode, rapid.Uint64().Draw(rt, label+".seed"))
}

func slicerDesc(s *Slicer) string {
	if s == nil {
		return "full"
	}
	return fmt.Sprintf("mode%d/seed%x", s.Mode, s.seed)
}

// drawSched draws a schedule specification.
func drawSched(rt *rapid.T) SchedSpec {
	return SchedSpec{
		Tape:     rapid.SliceOfN(rapid.Uint8Range(0, 7), 0, 48).Draw(rt, "tape"),
		Policy:   rapid.IntRange(0, 4).Draw(rt, "policy"),
		Seed:     rapid.Uint64().Draw(rt, "schedseed"),
		PickBias: rapid.IntRange(0, 3).Draw(rt, "pickbias"),
		MapOrder: rapid.IntRange(0, 2).Draw(rt, "maporder"),
	}
}

var t0ctx = context.Background()

// fatalT adapts *testing.T to Failer for deterministic (non-rapid) sub-checks.
type fatalT struct{ t *testing.T }

func (f *fatalT) Fatalf(format string, args ...interface{}) { f.t.Fatalf(format, args...) }
func (f *fatalT) Logf(format string, args ...interface{})   { f.t.Logf(format, args...) }
