package sim

import (
	"context"
	"fmt"
	"os"
	"runtime"
	"strconv"
	"strings"
	"testing"
	"time"

	"pgregory.net/rapid"
)

func TestMain(m *testing.M) {
	code := m.Run()
	Ev.Flush()
	os.Exit(code)
}

// Tier returns "quick" or "thorough".
func Tier() string {
	if os.Getenv("VERIF_TIER") == "thorough" {
		return "thorough"
	}
	return "quick"
}

func envInt(name string, def int) int {
	if v := os.Getenv(name); v != "" {
		if n, err := strconv.Atoi(v); err == nil {
			return n
		}
	}
	return def
}

// Prop runs a property under rapid with the harness-error guard. Each property test is one
// rapid.Check; the driver chooses -rapid.seed and -rapid.checks.
func Prop(t *testing.T, id string, f func(rt *rapid.T)) {
	Ev.Property = id
	rapid.Check(t, func(rt *rapid.T) {
		caseDone := make(chan struct{})
		defer close(caseDone)
		go hangWatchdog(id, caseDone)
		defer func() {
			if r := recover(); r != nil {
				if he, ok := r.(HarnessError); ok {
					fmt.Fprintln(os.Stderr, he.Error())
					Ev.Flush()
					os.Exit(2)
				}
				panic(r)
			}
		}()
		f(rt)
	})
}

// drawSlicer draws a read/write slicing policy.
func drawSlicer(rt *rapid.T, label string) *Slicer {
	mode := rapid.IntRange(0, 5).Draw(rt, label+".mode")
	if mode == 0 {
		return nil
	}
	return NewSlicer(mode, rapid.Uint64().Draw(rt, label+".seed"))
}

func slicerDesc(s *Slicer) string {
	if s == nil {
		return "full"
	}
	return fmt.Sprintf("mode%d/seed%x", s.Mode, s.seed)
}

// drawSched draws a schedule specification.
func drawSched(rt *rapid.T) SchedSpec {
	return SchedSpec{
		Tape:     rapid.SliceOfN(rapid.Uint8Range(0, 7), 0, 48).Draw(rt, "tape"),
		Policy:   rapid.IntRange(0, 4).Draw(rt, "policy"),
		Seed:     rapid.Uint64().Draw(rt, "schedseed"),
		PickBias: rapid.IntRange(0, 3).Draw(rt, "pickbias"),
		MapOrder: rapid.IntRange(0, 2).Draw(rt, "maporder"),
	}
}

var t0ctx = context.Background()

// fatalT adapts *testing.T to Failer for deterministic (non-rapid) sub-checks.
type fatalT struct{ t *testing.T }

func (f *fatalT) Fatalf(format string, args ...interface{}) { f.t.Fatalf(format, args...) }
func (f *fatalT) Logf(format string, args ...interface{})   { f.t.Logf(format, args...) }

// hangWatchdog is the last line of defence against CPU-bound non-termination in the code under
// test (a loop that neither blocks nor reaches a park point, which the scheduler cannot see). A case
// normally takes milliseconds to a few seconds. If one is still running after hangAfter, the stacks
// of running goroutines are sampled twice, 45 s apart: a goroutine that is inside wharf code in the
// same function both times is reported as a violation (the process exits; replay is by seed);
// anything else is harness trouble (exit 2), never a verdict.
func hangWatchdog(id string, done chan struct{}) {
	hangAfter := time.Duration(envInt("VERIF_HANG_AFTER_S", 900)) * time.Second
	select {
	case <-done:
		return
	case <-time.After(hangAfter):
	}
	first := spinningWharfFrames()
	select {
	case <-done:
		return
	case <-time.After(45 * time.Second):
	}
	second := spinningWharfFrames()
	for fn := range first {
		if second[fn] != "" {
			fmt.Printf("PROPERTY-VIOLATION class=%s/no-termination: a case is still running after %v and a goroutine has been executing wharf code in %s for at least 45 s without blocking:\n%s\n", id, hangAfter+45*time.Second, fn, second[fn])
			Ev.Flush()
			os.Exit(1)
		}
	}
	fmt.Fprintf(os.Stderr, "HARNESS: a case is still running after %v but no goroutine is spinning in wharf code\n%s\n", hangAfter+45*time.Second, trunc(allStacks(), 3000))
	Ev.Flush()
	os.Exit(2)
}

// spinningWharfFrames returns, for goroutines that are running or runnable (not blocked), the first
// wharf function on their stack -> the stack text.
func spinningWharfFrames() map[string]string {
	buf := make([]byte, 1<<20)
	n := runtime.Stack(buf, true)
	out := map[string]string{}
	for _, g := range strings.Split(string(buf[:n]), "\n\n") {
		head := g
		if i := strings.IndexByte(g, '\n'); i >= 0 {
			head = g[:i]
		}
		if !strings.Contains(head, "[running") && !strings.Contains(head, "[runnable") {
			continue
		}
		for _, line := range strings.Split(g, "\n") {
			if strings.HasPrefix(line, "github.com/itchio/wharf/") && !strings.Contains(line, "/simhook.") {
				fn := line
				if i := strings.IndexByte(fn, '('); i > 0 {
					fn = fn[:i]
				}
				out[fn] = trunc(g, 1500)
				break
			}
		}
	}
	return out
}
