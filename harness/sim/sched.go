package sim

import (
	"bytes"
	"fmt"
	"os"
	"runtime"
	"sort"
	"strconv"
	"strings"
	"sync"
	"testing"
	"testing/synctest"

	"github.com/itchio/wharf/simhook"
)

// SchedSpec is the rapid-drawn part of a schedule.
//
// Decision i is Tape[i] when i < len(Tape); afterwards it comes from Policy:
//
//	0: always the first parked task (by name)          -- what shrinking converges to
//	1: uniformly random (PRNG from Seed)
//	2: sticky: keep releasing the same task while it is parked (p = 7/8), else random
//	3: starve: never release tasks whose name contains Starve while another is parked
//	4: round robin
type SchedSpec struct {
	Tape   []uint8
	Policy int
	Seed   uint64
	Starve string
	// PickBias: how select choices are made when several clauses may be ready:
	// 0, 1 = random rotation from the PRNG, 2 = always clause 0, 3 = always last clause.
	PickBias int
	// MapOrder: 0 = sorted keys, 1 = random permutation from the PRNG, 2 = reversed.
	MapOrder int
}

// Action is something the scheduler itself does at a decision index (cancel a context, snapshot
// the disk, damage a file...).
type Action struct {
	AtStep int
	Name   string
	Do     func()
}

type parked struct {
	name string
	site string
	ch   chan struct{}
}

// Sched runs code on real goroutines inside a synctest bubble and releases exactly one parked
// goroutine at a time.
type Sched struct {
	Spec      SchedSpec
	MaxSteps  int
	Actions   []Action
	Invariant func(step int) string // evaluated at quiescent points; non-empty = violation
	Setup     func()                // runs inside the bubble before the call under test starts
	Teardown  func()                // runs inside the bubble after the run

	mu       sync.Mutex
	rng      *Rng
	pickRng  *Rng
	parked   []*parked
	names    map[uint64]string // goroutine id -> task name
	ordinals map[string]int
	rootGid  uint64
	active   bool
	segNotes []string
	lastTask string
	rr       int

	// results
	Log            []string
	Steps          int
	Stuck          bool
	StuckStacks    string
	BudgetExceeded bool
	Leaked         bool
	InvariantFail  string
	Returned       bool
	DrainSteps     int
	ActionsDone    []string
	Panic          string // non-empty: the code under test panicked (value + stack)
}

var logSeq int

func goid() uint64 {
	var buf [64]byte
	n := runtime.Stack(buf[:], false)
	// "goroutine 123 [running]:..."
	b := buf[:n]
	b = b[len("goroutine "):]
	i := bytes.IndexByte(b, ' ')
	id, _ := strconv.ParseUint(string(b[:i]), 10, 64)
	return id
}

// Yield is a park point; it is installed as simhook.Hook and also called by the simulated seams.
func (s *Sched) Yield(site string) {
	if !s.active {
		return
	}
	gid := goid()
	if gid == s.rootGid {
		return
	}
	s.mu.Lock()
	if !s.active {
		s.mu.Unlock()
		return
	}
	name, ok := s.names[gid]
	if ok && name == "" {
		// not one of ours (see below)
		s.mu.Unlock()
		return
	}
	if !ok {
		// The runtime's finalizer goroutine can end up here: an abandoned compressing writer (a
		// cancelled WritePatch never closes its brotli writer) is closed by its finalizer, which
		// writes to a simulated Writer. That goroutine is not part of the simulation - when it runs
		// is up to the garbage collector - and must never be parked.
		if strings.Contains(stack(), "runtime.runFinalizers") {
			s.names[gid] = ""
			s.mu.Unlock()
			return
		}
		base := site
		if i := strings.IndexByte(base, '#'); i >= 0 {
			base = base[:i]
		}
		s.ordinals[base]++
		name = fmt.Sprintf("%s/%d", base, s.ordinals[base])
		s.names[gid] = name
	}
	p := &parked{name: name, site: site, ch: make(chan struct{})}
	s.parked = append(s.parked, p)
	s.mu.Unlock()
	<-p.ch
}

// Name gives the calling goroutine a task name before its first park (used for the goroutine
// that runs the call under test).
func (s *Sched) Name(name string) {
	s.mu.Lock()
	s.names[goid()] = name
	s.mu.Unlock()
}

func (s *Sched) note(site string, v int) {
	if !s.active {
		return
	}
	s.mu.Lock()
	s.segNotes = append(s.segNotes, fmt.Sprintf("note %s=%d", site, v))
	s.mu.Unlock()
}

// Notef lets seams add observations to the event log (sorted per segment).
func (s *Sched) Notef(format string, args ...interface{}) {
	if !s.active {
		return
	}
	s.mu.Lock()
	s.segNotes = append(s.segNotes, fmt.Sprintf(format, args...))
	s.mu.Unlock()
}

func (s *Sched) pick(site string, n int) int {
	if !s.active {
		return n
	}
	s.mu.Lock()
	defer s.mu.Unlock()
	// the simulator always decides: leaving the choice to the Go runtime would make runs
	// unrepeatable
	switch s.Spec.PickBias {
	case 2:
		return 0
	case 3:
		return n - 1
	}
	return s.pickRng.Intn(n)
}

func (s *Sched) perm(site string, n int) []int {
	if !s.active {
		return nil
	}
	s.mu.Lock()
	defer s.mu.Unlock()
	p := make([]int, n)
	for i := range p {
		p[i] = i
	}
	switch s.Spec.MapOrder {
	case 1:
		for i := n - 1; i > 0; i-- {
			j := s.pickRng.Intn(i + 1)
			p[i], p[j] = p[j], p[i]
		}
	case 2:
		for i, j := 0, n-1; i < j; i, j = i+1, j-1 {
			p[i], p[j] = p[j], p[i]
		}
	}
	s.segNotes = append(s.segNotes, fmt.Sprintf("perm %s=%v", site, p))
	return p
}

func (s *Sched) decide(step int, n int, cands []*parked) int {
	if step < len(s.Spec.Tape) {
		return int(s.Spec.Tape[step]) % n
	}
	switch s.Spec.Policy {
	case 1:
		return s.rng.Intn(n)
	case 2:
		if s.lastTask != "" && s.rng.Intn(8) != 0 {
			for i, c := range cands {
				if c.name == s.lastTask {
					return i
				}
			}
		}
		return s.rng.Intn(n)
	case 3:
		var ok []int
		for i, c := range cands {
			if s.Spec.Starve == "" || !strings.Contains(c.name, s.Spec.Starve) {
				ok = append(ok, i)
			}
		}
		if len(ok) == 0 {
			return s.rng.Intn(n)
		}
		return ok[s.rng.Intn(len(ok))]
	case 4:
		s.rr++
		return s.rr % n
	}
	return 0
}

// Run executes fn under the scheduler inside a fresh synctest bubble. It returns after fn has
// returned and all helper goroutines have either finished, or are parked no more (drain), or the
// run is stuck / over budget.
func (s *Sched) Run(t *testing.T, fn func()) {
	if s.MaxSteps == 0 {
		s.MaxSteps = 20000
	}
	s.rng = NewRng(s.Spec.Seed)
	s.pickRng = NewRng(s.Spec.Seed ^ 0x5bd1e995)
	s.names = map[uint64]string{}
	s.ordinals = map[string]int{}
	sort.SliceStable(s.Actions, func(i, j int) bool { return s.Actions[i].AtStep < s.Actions[j].AtStep })

	defer func() {
		simhook.Hook = nil
		simhook.NoteHook = nil
		simhook.PickHook = nil
		simhook.PermHook = nil
	}()

	func() {
		defer func() {
			if r := recover(); r != nil {
				msg := fmt.Sprint(r)
				if strings.Contains(msg, "blocked goroutines remain") || strings.Contains(msg, "deadlock") {
					s.Leaked = true
					return
				}
				panic(r)
			}
		}()
		synctest.Test(t, func(t *testing.T) {
			s.rootGid = goid()
			s.active = true
			simhook.Hook = s.Yield
			simhook.NoteHook = s.note
			simhook.PickHook = s.pick
			simhook.PermHook = s.perm

			if s.Setup != nil {
				s.Setup()
			}
			if s.Teardown != nil {
				defer s.Teardown()
			}
			done := make(chan struct{})
			var fnPanic interface{}
			go func() {
				defer close(done)
				defer func() {
					if r := recover(); r != nil {
						fnPanic = fmt.Sprintf("%v\n%s", r, stack())
					}
				}()
				s.Name("main")
				s.Yield("main.start")
				fn()
			}()

			actIdx := 0
			for {
				synctest.Wait()
				select {
				case <-done:
					s.Returned = true
				default:
				}
				s.mu.Lock()
				if len(s.segNotes) > 0 {
					sort.Strings(s.segNotes)
					s.Log = append(s.Log, s.segNotes...)
					s.segNotes = s.segNotes[:0]
				}
				n := len(s.parked)
				s.mu.Unlock()

				if s.Invariant != nil && s.InvariantFail == "" {
					if msg := s.Invariant(s.Steps); msg != "" {
						s.InvariantFail = fmt.Sprintf("step %d: %s", s.Steps, msg)
					}
				}

				if n == 0 {
					if !s.Returned {
						s.Stuck = true
						s.StuckStacks = allStacks()
					}
					break
				}
				if s.Steps >= s.MaxSteps {
					s.BudgetExceeded = true
					break
				}
				acted := false
				for actIdx < len(s.Actions) && s.Actions[actIdx].AtStep <= s.Steps && !s.Returned {
					a := s.Actions[actIdx]
					actIdx++
					s.Log = append(s.Log, fmt.Sprintf("action %s @%d", a.Name, s.Steps))
					s.ActionsDone = append(s.ActionsDone, a.Name)
					a.Do()
					acted = true
				}
				if acted {
					// an action (cancel, ...) may wake goroutines that are blocked on wharf's own
					// channels: let them run to quiescence before the next decision
					continue
				}

				s.mu.Lock()
				sort.SliceStable(s.parked, func(i, j int) bool { return s.parked[i].name < s.parked[j].name })
				k := s.decide(s.Steps, len(s.parked), s.parked)
				p := s.parked[k]
				s.parked = append(s.parked[:k], s.parked[k+1:]...)
				s.lastTask = p.name
				s.Log = append(s.Log, fmt.Sprintf("%d/%d %s @%s", k, n, p.name, p.site))
				s.mu.Unlock()
				s.Steps++
				if s.Returned {
					s.DrainSteps++
				}
				close(p.ch)
			}

			// release whatever is still parked so the bubble can end (stuck / budget cases)
			s.mu.Lock()
			s.active = false
			rest := s.parked
			s.parked = nil
			s.mu.Unlock()
			for _, p := range rest {
				close(p.ch)
			}
			if s.Stuck || s.BudgetExceeded {
				// the call under test may never return; do not wait for it
				return
			}
			<-done
			if fnPanic != nil {
				s.Panic = fmt.Sprint(fnPanic)
			}
		})
	}()
	Ev.Steps(s.Steps)
	Ev.EventLog(s.LogHash())
	if d := os.Getenv("VERIF_LOG_DIR"); d != "" {
		// determinism debugging: every run's event log as a file, numbered in order
		logSeq++
		os.WriteFile(fmt.Sprintf("%s/%06d.log", d, logSeq), []byte(strings.Join(s.Log, "\n")+"\n"), 0o644)
	}
	if s.Leaked {
		Ev.mu.Lock()
		Ev.Leaks++
		Ev.mu.Unlock()
	}
	if s.BudgetExceeded {
		Ev.mu.Lock()
		Ev.Budget++
		Ev.mu.Unlock()
	}
}

func (s *Sched) LogHash() uint64 {
	return fnv64([]byte(strings.Join(s.Log, "\n")))
}

// Trace returns the first n log lines for reports and samples.
func (s *Sched) Trace(n int) []string {
	if len(s.Log) <= n {
		return append([]string{}, s.Log...)
	}
	return append(append([]string{}, s.Log[:n]...), fmt.Sprintf("… %d more", len(s.Log)-n))
}

func stack() string {
	buf := make([]byte, 16<<10)
	return string(buf[:runtime.Stack(buf, false)])
}

func allStacks() string {
	buf := make([]byte, 256<<10)
	n := runtime.Stack(buf, true)
	out := string(buf[:n])
	// keep only goroutines that mention wharf
	var keep []string
	for _, g := range strings.Split(out, "\n\n") {
		if strings.Contains(g, "itchio/wharf") {
			keep = append(keep, g)
		}
	}
	return trunc(strings.Join(keep, "\n\n"), 6000)
}
