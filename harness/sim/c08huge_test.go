package sim

import (
	"bytes"
	"context"
	"fmt"
	"io"
	"testing"

	"github.com/itchio/lake/tlc"
	"github.com/itchio/savior/seeksource"
	"github.com/itchio/wharf/pwr"
)

// procPool serves procedurally generated file contents (random access, nothing on disk): files far
// larger than what a tmpfs tree can hold per run.
type procPool struct {
	sizes []int64
	seeds []uint64
}

type procReader struct {
	size int64
	seed uint64
	pos  int64
}

func wordAt(seed uint64, i int64) uint64 {
	z := seed + uint64(i)*0x9E3779B97F4A7C15
	z = (z ^ (z >> 30)) * 0xBF58476D1CE4E5B9
	z = (z ^ (z >> 27)) * 0x94D049BB133111EB
	return z ^ (z >> 31)
}

func (r *procReader) Read(p []byte) (int, error) {
	if r.pos >= r.size {
		return 0, io.EOF
	}
	n := len(p)
	if int64(n) > r.size-r.pos {
		n = int(r.size - r.pos)
	}
	for i := 0; i < n; {
		w := wordAt(r.seed, (r.pos+int64(i))/8)
		for b := (r.pos + int64(i)) % 8; b < 8 && i < n; b++ {
			p[i] = byte(w >> (8 * uint(b)))
			i++
		}
	}
	r.pos += int64(n)
	return n, nil
}

func (r *procReader) Seek(off int64, whence int) (int64, error) {
	switch whence {
	case io.SeekStart:
		r.pos = off
	case io.SeekCurrent:
		r.pos += off
	case io.SeekEnd:
		r.pos = r.size + off
	}
	return r.pos, nil
}

func (p *procPool) GetSize(i int64) int64 { return p.sizes[i] }
func (p *procPool) GetReader(i int64) (io.Reader, error) {
	return &procReader{size: p.sizes[i], seed: p.seeds[i]}, nil
}
func (p *procPool) GetReadSeeker(i int64) (io.ReadSeeker, error) {
	return &procReader{size: p.sizes[i], seed: p.seeds[i]}, nil
}
func (p *procPool) Close() error { return nil }

// TestC08Huge: a build with a file beyond 2 GiB (sizes whose bit 31 is set), diffed against
// itself with the old signature read back from a signature file: nothing may be sent again.
func TestC08Huge(t *testing.T) {
	Ev.Property = "C08"
	ft := &fatalT{t: t}
	sizes := []int64{1<<31 + 12345}
	if Tier() == "thorough" {
		sizes = append(sizes, 1<<31+1<<30+65536*3+1)
	}
	for _, big := range sizes {
		c := &tlc.Container{Files: []*tlc.File{
			{Path: "huge.bin", Mode: 0o644, Size: big, Offset: 0},
			{Path: "small.bin", Mode: 0o644, Size: 1000, Offset: big},
		}, Size: big + 1000}
		pool := &procPool{sizes: []int64{big, 1000}, seeds: []uint64{11, 12}}
		hashes, err := pwr.ComputeSignature(context.Background(), c, pool, Quiet())
		if err != nil {
			Violation(ft, "C08/huge-sign-failed", "ComputeSignature of a %d-byte file: %v", big, err)
			return
		}
		wantHashes := (big+BlockSize-1)/BlockSize + 1
		if int64(len(hashes)) != wantHashes {
			Violation(ft, "C08/huge-hash-count", "%d hashes for a %d-byte and a 1000-byte file, expected %d", len(hashes), big, wantHashes)
			return
		}
		src := seeksource.FromBytes(SigBytes(c, hashes, &pwr.CompressionSettings{Algorithm: pwr.CompressionAlgorithm_NONE}))
		_, err = src.Resume(nil)
		Must(err, "resume")
		si, err := pwr.ReadSignature(context.Background(), src)
		if err != nil {
			Violation(ft, "C08/huge-readsignature-failed", "ReadSignature: %v", err)
			return
		}
		last := si.Hashes[wantHashes-2]
		if int64(last.ShortSize) != big%BlockSize || last.BlockIndex != wantHashes-2 {
			Violation(ft, "C08/huge-short-size", "last block of the %d-byte file read back with short size %d / block index %d, expected %d / %d", big, last.ShortSize, last.BlockIndex, big%BlockSize, wantHashes-2)
			return
		}
		var patch, sig countingDiscard
		dctx := &pwr.DiffContext{Compression: &pwr.CompressionSettings{Algorithm: pwr.CompressionAlgorithm_NONE}, Consumer: Quiet(),
			SourceContainer: c, Pool: pool, TargetContainer: c, TargetSignature: si.Hashes}
		var werr error
		if p := Recover(func() { werr = dctx.WritePatch(context.Background(), &patch, &sig) }); p != "" || werr != nil {
			Violation(ft, "C08/huge-diff-failed", "WritePatch with a %d-byte file: %v %s", big, werr, p)
			return
		}
		if dctx.FreshBytes != 0 || dctx.ReusedBytes != big+1000 {
			Violation(ft, "C08/huge-identical-builds-carry-data", "identical builds with a %d-byte file (old signature read back from a signature file): fresh %d, reused %d, patch %d bytes", big, dctx.FreshBytes, dctx.ReusedBytes, patch.n)
			return
		}
		Ev.Probe("file_over_2GiB_diffed_against_itself")
		Ev.Eval(uint64(big), true, func() interface{} {
			return map[string]interface{}{"file_size": big, "hashes": len(hashes), "patch_bytes": patch.n, "fresh": dctx.FreshBytes, "reused": dctx.ReusedBytes}
		})
		Ev.Eval(uint64(big)+1, true, nil)
	}
}

type countingDiscard struct{ n int64 }

func (c *countingDiscard) Write(p []byte) (int, error) { c.n += int64(len(p)); return len(p), nil }

var _ = bytes.Equal
var _ = fmt.Sprint

// TestC08Crowded: an old build with a few hundred pairwise different blocks that all share one weak
// hash (one bucket of the block library), and a new build that has the same file plus copies of the
// first, a middle and the last of those blocks: everything is in the old build, nothing is fresh.
func TestC08Crowded(t *testing.T) {
	Ev.Property = "C08"
	ft := &fatalT{t: t}
	for _, nblocks := range []int{300, 700} {
		if nblocks > 300 && Tier() != "thorough" {
			continue
		}
		base := Bytes(uint64(nblocks), BlockSize)
		for i := range base {
			// room for the nudges below
			if base[i] < 2 {
				base[i] = 2
			}
			if base[i] > 253 {
				base[i] = 253
			}
		}
		crowd := make([]byte, 0, nblocks*BlockSize)
		for k := 0; k < nblocks; k++ {
			blk := append([]byte{}, base...)
			if k > 0 {
				// (+1, -2, +1) at a position of its own: same sum, same weighted sum
				i := 3 * k
				blk[i]++
				blk[i+1] -= 2
				blk[i+2]++
			}
			crowd = append(crowd, blk...)
		}
		old := Tree{"crowd.bin": &Entry{Kind: KFile, Data: crowd}}
		nw := old.Clone()
		pick := []int{0, nblocks / 2, 257, nblocks - 1}
		for _, k := range pick {
			nw[fmt.Sprintf("copy%03d.bin", k)] = &Entry{Kind: KFile, Data: crowd[k*BlockSize : (k+1)*BlockSize]}
		}
		dir, cleanup := RunDir()
		oldDir, newDir := dir+"/old", dir+"/new"
		Must(old.Materialize(oldDir), "old")
		Must(nw.Materialize(newDir), "new")
		dr := Diff(oldDir, newDir, &pwr.CompressionSettings{Algorithm: pwr.CompressionAlgorithm_NONE}, DiffSeams{})
		cleanup()
		if dr.Err != nil || dr.Panic != "" {
			Violation(ft, "C08/diff-failed", "WritePatch failed: %v %s", dr.Err, dr.Panic)
			return
		}
		if dr.Fresh != 0 {
			Violation(ft, "C08/identical-file-resent", "the old build has a file of %d different blocks with one and the same weak hash; the new build has that file and copies of blocks %v of it, yet the patch carries %d fresh bytes (reused %d)", nblocks, pick, dr.Fresh, dr.Reused)
			return
		}
		Ev.Probe("more_than_256_different_blocks_share_one_weak_hash")
		Ev.Eval(uint64(nblocks)*977, true, func() interface{} {
			return map[string]interface{}{"blocks_in_one_bucket": nblocks, "patch_bytes": len(dr.Patch), "fresh": dr.Fresh, "reused": dr.Reused}
		})
	}
}
