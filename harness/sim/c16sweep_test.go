package sim

import (
	"context"
	"fmt"
	"path/filepath"
	"strings"
	"testing"

	"github.com/itchio/headway/state"
	"github.com/itchio/wharf/pwr"
)

// TestC16CancelSweep: fault enumeration over the instant of cancellation. One build with a file of
// a few MiB whose only damage is a flipped byte in its last block; for each consumer mode and each
// of a few fixed schedules the run is first done uninterrupted to learn its number of steps, then
// repeated with the context cancelled at EVERY quiescent step. A clean verdict must never come out.
func TestC16CancelSweep(t *testing.T) {
	Ev.Property = "C16"
	ft := &fatalT{t: t}
	sizes := []int{2*MiB + 4099}
	if Tier() == "thorough" {
		sizes = append(sizes, 1200*KiB, 3*MiB+BlockSize, 4*MiB+1)
	}
	// negative "sizes" select small builds whose only damage is reported by the validator itself, not
	// by the per-block relay: a missing file, a file cut on a block boundary, a missing symlink
	sizes = append(sizes, -1, -2, -3)
	for _, sz := range sizes {
		signed := Tree{"m_mid.bin": &Entry{Kind: KFile, Data: Bytes(uint64(sz), max(sz, 0))}, "z_after.bin": &Entry{Kind: KFile, Data: Bytes(3, 5000)}}
		fault := Fault{Kind: "flip", Path: "m_mid.bin", Off: sz - 7}
		switch sz {
		case -1:
			signed = Tree{"a.bin": &Entry{Kind: KFile, Data: Bytes(1, 70000)}, "gone.bin": &Entry{Kind: KFile, Data: Bytes(2, 100)}}
			fault = Fault{Kind: "delete", Path: "gone.bin"}
		case -2:
			signed = Tree{"a.bin": &Entry{Kind: KFile, Data: Bytes(1, 100)}, "cut.bin": &Entry{Kind: KFile, Data: Bytes(2, 2*BlockSize+5)}}
			fault = Fault{Kind: "truncate", Path: "cut.bin", N: 2 * BlockSize}
		case -3:
			signed = Tree{"a.bin": &Entry{Kind: KFile, Data: Bytes(1, 100)}, "l": &Entry{Kind: KLink, Dest: "a.bin"}}
			fault = Fault{Kind: "delete", Path: "l"}
		}
		damaged, applied := ApplyFaults(signed, []Fault{fault})
		if len(applied) != 1 {
			panic(HarnessError{"sweep: fault not applied"})
		}
		dir, cleanup := RunDir()
		si := signTree(signed, filepath.Join(dir, "signed"))
		target := filepath.Join(dir, "target")
		Must(damaged.Materialize(target), "materialize damaged")
		runs, fired := 0, 0
		for _, cmode := range []string{"failfast", "woundsfile", "printer"} {
			// (the consumer goroutine is named after the function it first parks in, Validate; starving
			// it keeps it runnable-but-not-running while the worker and the caller go on)
			specs := []SchedSpec{{Policy: 0, PickBias: 2}, {Policy: 3, Starve: "pwr.ValidatorContext.Validate", PickBias: 2}}
			if Tier() == "thorough" {
				specs = append(specs, SchedSpec{Policy: 4, PickBias: 3}, SchedSpec{Policy: 0, PickBias: 3}, SchedSpec{Policy: 4, PickBias: 2}, SchedSpec{Policy: 1, Seed: 5, PickBias: 1}, SchedSpec{Policy: 2, Seed: 9, PickBias: 0},
					SchedSpec{Policy: 3, Starve: "pwr.ValidatorContext.Validate", PickBias: 3}, SchedSpec{Policy: 3, Starve: "pwr.ValidatorContext.validate", PickBias: 2}, SchedSpec{Policy: 3, Starve: "main", PickBias: 2})
			}
			if sz < 0 {
				// small builds are cheap: also let the simulator's PRNG decide every select on its own
				// (the outcome wanted at one select need not be the one wanted at the next)
				for seed := uint64(1); seed <= 6; seed++ {
					specs = append(specs, SchedSpec{Policy: 3, Starve: "pwr.ValidatorContext.Validate", PickBias: 1, Seed: seed}, SchedSpec{Policy: 1, PickBias: 1, Seed: seed})
				}
			}
			for _, sp := range specs {
				total := -1
				for cancelAt := -1; total < 0 || cancelAt <= total+2; cancelAt++ {
					var ctx context.Context
					var cancel context.CancelFunc
					vctx := &pwr.ValidatorContext{Consumer: Quiet()}
					switch cmode {
					case "failfast":
						vctx.FailFast = true
					case "woundsfile":
						vctx.WoundsPath = filepath.Join(dir, fmt.Sprintf("wounds-%d.pww", runs))
					case "printer":
						vctx.Consumer = &state.Consumer{OnMessage: func(lvl, msg string) {}}
					}
					s := &Sched{Spec: sp, MaxSteps: 100000}
					s.Setup = func() { ctx, cancel = context.WithCancel(context.Background()) }
					s.Teardown = func() { cancel() }
					if cancelAt >= 0 {
						s.Actions = []Action{{AtStep: cancelAt, Name: "cancel-context", Do: func() { cancel() }}}
					}
					var verr error
					s.Run(t, func() { verr = vctx.Validate(ctx, target, si) })
					runs++
					if cancelAt < 0 {
						total = s.Steps
					}
					didCancel := len(s.ActionsDone) > 0
					if didCancel {
						fired++
						Ev.Fault("context_cancelled", 1)
					}
					what := fmt.Sprintf("scenario %d (%v), consumer %s, policy %d (starve %q) pickbias %d seed %d, cancelled at step %d of %d (fired %v)", sz, faultStrings(applied), cmode, sp.Policy, sp.Starve, sp.PickBias, sp.Seed, cancelAt, total, didCancel)
					if s.BudgetExceeded {
						continue
					}
					if s.Stuck {
						cleanup()
						Violation(ft, "C16/stuck", "Validate never returns: no runnable task (%s)\n%s\ntrace tail:\n%s", what, s.StuckStacks, joinLines(tail(s.Log, 40), 40))
						return
					}
					if s.Panic != "" {
						cleanup()
						Violation(ft, "C16/panic", "Validate panicked: %s (%s)", s.Panic, what)
						return
					}
					if cmode == "failfast" && verr == nil {
						cleanup()
						Violation(ft, "C16/false-valid", "fail-fast validation returned nil although the directory differs from the signed build (%s)\ntrace tail:\n%s", what, joinLines(tail(s.Log, 40), 40))
						return
					}
					if cmode != "failfast" && verr == nil && !vctx.WoundsConsumer.HasWounds() {
						cleanup()
						Violation(ft, "C16/clean-verdict-by-interruption", "Validate (%s) returned nil and its consumer reports no wounds, although the directory differs from the signed build (%s)\ntrace tail:\n%s", cmode, what, joinLines(tail(s.Log, 40), 40))
						return
					}
					if cancelAt < 0 && verr == nil && cmode == "failfast" {
						panic(HarnessError{"sweep: unreachable"})
					}
					Ev.Eval(fnv64([]byte(what)), didCancel, func() interface{} {
						return map[string]interface{}{"setup": what, "returned": fmt.Sprint(verr), "schedule": s.Trace(30)}
					})
				}
			}
		}
		cleanup()
		Ev.Probe("cancellation_swept_over_every_step_of_a_validation")
		if fired == 0 || !strings.Contains(fmt.Sprint(runs), "") {
			panic(HarnessError{"sweep: no cancellation fired"})
		}
	}
}
