package sim

import (
	"fmt"
	"path/filepath"
	"testing"

	"github.com/itchio/wharf/pwr"
)

// Witness tests reproduce known (unrepaired) findings from explicit, already-minimal scenarios.
// They print WITNESS-REPRODUCED when the defect still shows exactly as recorded and
// WITNESS-NOT-REPRODUCED otherwise; they never fail the run.

func witnessInPlace(t *testing.T, old, nw Tree) *ApplyResult {
	dir, cleanup := RunDir()
	defer cleanup()
	oldDir, newDir, inDir, stage := filepath.Join(dir, "old"), filepath.Join(dir, "new"), filepath.Join(dir, "in"), filepath.Join(dir, "stage")
	Must(old.Normalize().Materialize(oldDir), "old")
	Must(nw.Normalize().Materialize(newDir), "new")
	Must(old.Materialize(inDir), "in")
	dr := Diff(oldDir, newDir, &pwr.CompressionSettings{Algorithm: pwr.CompressionAlgorithm_NONE}, DiffSeams{})
	if dr.Err != nil || dr.Panic != "" {
		t.Logf("diff failed: %v %s", dr.Err, dr.Panic)
		return nil
	}
	ar := ApplyInPlace(dr.Patch, inDir, stage, ApplyOpts{})
	if ar.Err == nil && ar.Panic == "" {
		if d := nw.Diff(MustSnapshot(inDir).Tree); d != "" {
			ar.Invariant = "wrong output: " + d
		}
	}
	return ar
}

// old directory P (with a child) becomes new file P: Commit fails with ENOTEMPTY.
func TestWitness_C02_dir_to_file(t *testing.T) {
	a := witnessInPlace(t,
		Tree{"d/x": &Entry{Kind: KFile, Data: Bytes(1, 1000)}, "keep": &Entry{Kind: KFile, Data: Bytes(2, 10)}},
		Tree{"d": &Entry{Kind: KFile, Data: Bytes(3, 500)}, "keep": &Entry{Kind: KFile, Data: Bytes(2, 10)}})
	fmt.Printf("dir->file: %+v\n", a)
	if a != nil && a.Stage == "commit" && a.Err != nil {
		fmt.Println("WITNESS-REPRODUCED C02/dir-to-file-commit")
	} else {
		fmt.Println("WITNESS-NOT-REPRODUCED C02/dir-to-file-commit")
	}
}

// old file Q becomes a directory (or a symlink) while Q's unchanged content is reused at another
// path: ensureDirsAndSymlinks removes Q before the pending transposition out of it is applied.
func TestWitness_C02_kindchange_source(t *testing.T) {
	b := witnessInPlace(t,
		Tree{"q": &Entry{Kind: KFile, Data: Bytes(4, 1000)}},
		Tree{"q/inner": &Entry{Kind: KFile, Data: Bytes(4, 1000)}})
	c := witnessInPlace(t,
		Tree{"f0": &Entry{Kind: KFile, Data: Bytes(5, 70000)}},
		Tree{"f0": &Entry{Kind: KLink, Dest: "nowhere"}, "f1": &Entry{Kind: KFile, Data: Bytes(5, 70000)}})
	fmt.Printf("file->dir: %+v\nfile->symlink: %+v\n", b, c)
	rb := b != nil && (b.Err != nil || b.Invariant != "")
	rc := c != nil && (c.Err != nil || c.Invariant != "")
	if rb || rc {
		fmt.Println("WITNESS-REPRODUCED C02/kindchange-destroys-transposition-source")
	} else {
		fmt.Println("WITNESS-NOT-REPRODUCED C02/kindchange-destroys-transposition-source")
	}
}
