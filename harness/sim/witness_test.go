package sim

import (
	"fmt"
	"path/filepath"
	"testing"

	"github.com/itchio/wharf/pwr"
)

// Witness tests reproduce known (unrepaired) findings from explicit, already-minimal scenarios.
// They print WITNESS-REPRODUCED when the defect still shows exactly as recorded and
// WITNESS-NOT-REPRODUCED otherwise; they never fail the run.

func witnessInPlace(t *testing.T, old, nw Tree) *ApplyResult {
	dir, cleanup := RunDir()
	defer cleanup()
	oldDir, newDir, inDir, stage := filepath.Join(dir, "old"), filepath.Join(dir, "new"), filepath.Join(dir, "in"), filepath.Join(dir, "stage")
	Must(old.Normalize().Materialize(oldDir), "old")
	Must(nw.Normalize().Materialize(newDir), "new")
	Must(old.Materialize(inDir), "in")
	dr := Diff(oldDir, newDir, &pwr.CompressionSettings{Algorithm: pwr.CompressionAlgorithm_NONE}, DiffSeams{})
	if dr.Err != nil || dr.Panic != "" {
		t.Logf("diff failed: %v %s", dr.Err, dr.Panic)
		return nil
	}
	ar := ApplyInPlace(dr.Patch, inDir, stage, ApplyOpts{})
	if ar.Err == nil && ar.Panic == "" {
		if d := nw.Diff(MustSnapshot(inDir).Tree); d != "" {
			ar.Invariant = "wrong output: " + d
		}
	}
	return ar
}

// old directory P (with a child) becomes new file P, and old file Q becomes directory Q holding
// Q's old content: Commit fails (ENOTEMPTY / EISDIR).
func TestWitness_C02_dirfile(t *testing.T) {
	a := witnessInPlace(t,
		Tree{"d/x": &Entry{Kind: KFile, Data: Bytes(1, 1000)}, "keep": &Entry{Kind: KFile, Data: Bytes(2, 10)}},
		Tree{"d": &Entry{Kind: KFile, Data: Bytes(3, 500)}, "keep": &Entry{Kind: KFile, Data: Bytes(2, 10)}})
	b := witnessInPlace(t,
		Tree{"q": &Entry{Kind: KFile, Data: Bytes(4, 1000)}},
		Tree{"q/inner": &Entry{Kind: KFile, Data: Bytes(4, 1000)}})
	ra := a != nil && a.Stage == "commit" && a.Err != nil
	rb := b != nil && b.Stage == "commit" && b.Err != nil
	fmt.Printf("dir->file: %+v\nfile->dir: %+v\n", a, b)
	if ra || rb {
		fmt.Println("WITNESS-REPRODUCED C02/dirfile-kind-change-commit")
	} else {
		fmt.Println("WITNESS-NOT-REPRODUCED C02/dirfile-kind-change-commit")
	}
}
