package sim

import (
	"path/filepath"
	"testing"

	"github.com/itchio/wharf/pwr"
)

// Witness tests reproduce known (unrepaired) findings from explicit, already-minimal scenarios.
// They print WITNESS-REPRODUCED when the defect still shows exactly as recorded and
// WITNESS-NOT-REPRODUCED otherwise; they never fail the run.

func witnessInPlace(t *testing.T, old, nw Tree) *ApplyResult {
	dir, cleanup := RunDir()
	defer cleanup()
	oldDir, newDir, inDir, stage := filepath.Join(dir, "old"), filepath.Join(dir, "new"), filepath.Join(dir, "in"), filepath.Join(dir, "stage")
	Must(old.Normalize().Materialize(oldDir), "old")
	Must(nw.Normalize().Materialize(newDir), "new")
	Must(old.Materialize(inDir), "in")
	dr := Diff(oldDir, newDir, &pwr.CompressionSettings{Algorithm: pwr.CompressionAlgorithm_NONE}, DiffSeams{})
	if dr.Err != nil || dr.Panic != "" {
		t.Logf("diff failed: %v %s", dr.Err, dr.Panic)
		return nil
	}
	ar := ApplyInPlace(dr.Patch, inDir, stage, ApplyOpts{})
	if ar.Err == nil && ar.Panic == "" {
		if d := nw.Diff(MustSnapshot(inDir).Tree); d != "" {
			ar.Invariant = "wrong output: " + d
		}
	}
	return ar
}

// (The two C02 kind-change findings these witnesses were written for are repaired - /repo 33bc733 -
// and are now exercised as ordinary cases by TestC02 and TestC02Directed. The helper stays for the
// next finding that has to be recorded rather than repaired.)
