package sim

import (
	"bytes"
	"fmt"
	"path/filepath"
	"testing"

	"pgregory.net/rapid"
)

// TestC07: optimizing a patch never changes what it produces, and the optimizer terminates
// without crashing for every setting of its tuning parameters.
func TestC07(t *testing.T) {
	Ev.Rule = "generated build pairs (bias to new files of 0..16 bytes, tiny/empty old files, renamed+edited files) x optimizer knobs (partitions 0..16, suffix-sort concurrency -1..4, ForceMapAll, size limits, output compression) x schedules of the bsdiff sort/worker/dispatcher/collector goroutines; apply fresh and in place; non-trivial = at least one file was mapped to a bsdiff series; distinct by (pair, knobs, schedule log)"
	Ev.Component("rediff.NewContext/Optimize, bsdiff.DiffContext.Do, PSA, patcher bsdiff series, fresh + overlay bowls", "real")
	Ev.Component("patch source, output writer, goroutine schedule / select choice / map order", "simulated")
	Ev.Assume("the optimizer reads old and new builds through real fspools; the patcher that applies the result reads the old build through a pool that may return short reads")
	Prop(t, "C07", func(rt *rapid.T) {
		o := GenOpts{Links: true, EmptyDirs: true, LowEntropy: true, MaxMid: 150 * KiB, TinyBias: rapid.Bool().Draw(rt, "tinybias")}
		pair := GenPair(rt, o)
		comp := GenCompression(rt)
		k := GenKnobs(rt)
		spec := drawSched(rt)
		dir, cleanup := RunDir()
		defer cleanup()
		oldDir, newDir := filepath.Join(dir, "old"), filepath.Join(dir, "new")
		Must(pair.Old.Materialize(oldDir), "materialize old")
		Must(pair.New.Materialize(newDir), "materialize new")
		dr := Diff(oldDir, newDir, comp, DiffSeams{})
		if dr.Err != nil || dr.Panic != "" {
			Violation(rt, "C07/patch-production", "WritePatch failed: %v %s", dr.Err, dr.Panic)
			return
		}

		s := &Sched{Spec: spec, MaxSteps: 300000}
		var or *OptimizeResult
		s.Run(t, func() {
			or = Optimize(dr.Patch, oldDir, newDir, k, drawSlicerFromSeed(spec.Seed), s.Yield)
		})
		if s.BudgetExceeded {
			return
		}
		kd := fmt.Sprintf("partitions=%d suffixconc=%d forcemapall=%v limit=%d outcomp=%v", k.Partitions, k.SuffixConc, k.ForceMapAll, k.SizeLimit, k.Compression)
		if s.Stuck {
			Violation(rt, "C07/optimize-stuck", "Optimize deadlocked (%s)\n%s\ntrace:\n%s", kd, s.StuckStacks, joinLines(s.Trace(80), 80))
			return
		}
		if s.Panic != "" || or.Panic != "" {
			Violation(rt, "C07/optimize-panic", "Optimize panicked (%s): %s%s", kd, s.Panic, or.Panic)
			return
		}
		if or.Err != nil {
			Violation(rt, "C07/optimize-error", "Optimize failed on a valid patch (%s): %+v", kd, or.Err)
			return
		}
		if s.Leaked {
			Ev.Probe("goroutines_left_blocked_after_optimize")
		}
		if or.Again != nil && rapid.IntRange(0, 3).Draw(rt, "optimizeagain") == 0 {
			// the same context and pools used for a second optimization: same patch again
			r2 := or.Again()
			if r2.Panic != "" || r2.Err != nil {
				Violation(rt, "C07/second-optimize-failed", "%v %s (%s)", r2.Err, r2.Panic, kd)
				return
			}
			if !bytes.Equal(r2.Patch, or.Patch) {
				Violation(rt, "C07/second-optimize-differs", "optimizing the same patch a second time with the same context and pools gives a different patch (%d vs %d bytes) (%s)", len(r2.Patch), len(or.Patch), kd)
				return
			}
			Ev.Probe("optimized_twice_with_the_same_context")
		}

		// fresh
		outDir := filepath.Join(dir, "out")
		// the old build is read through a pool whose readers may return short reads (bsdiff series go
		// through the lrufile cache, rsync series through the block copier)
		ar := ApplyFresh(or.Patch, oldDir, outDir, ApplyOpts{PoolSlice: drawSlicer(rt, "oldpoolslice")})
		if ar.Panic != "" || ar.Err != nil {
			Violation(rt, "C07/apply-fresh-failed", "applying the optimized patch (fresh) failed at %s: %+v %s (%s)", ar.Stage, ar.Err, ar.Panic, kd)
			return
		}
		if d := pair.New.Diff(MustSnapshot(outDir).Tree); d != "" {
			Violation(rt, "C07/fresh-wrong-output", "optimized patch applied fresh differs from the new build: %s (%s)\nops %v", d, kd, pair.Ops)
			return
		}
		// in place (on a second copy of the old build)
		inDir, stage := filepath.Join(dir, "inplace"), filepath.Join(dir, "stage")
		Must(pair.Old.Materialize(inDir), "materialize inplace")
		ar2 := ApplyInPlace(or.Patch, inDir, stage, ApplyOpts{})
		if ar2.Panic != "" {
			Violation(rt, "C07/apply-inplace-panic", "applying the optimized patch in place panicked at %s: %s", ar2.Stage, ar2.Panic)
			return
		}
		known := pair.HasKnownInPlaceShape()
		if ar2.Err != nil {
			if known && ar2.Stage == "commit" {
				// C02's known in-place commit findings, not C07's subject
				Ev.Probe("inplace_skipped_known_inplace_shape")
			} else {
				Violation(rt, "C07/apply-inplace-failed", "applying the optimized patch in place failed at %s: %+v (%s)", ar2.Stage, ar2.Err, kd)
				return
			}
		} else if d := pair.New.Diff(MustSnapshot(inDir).Tree); d != "" {
			if known {
				Ev.Probe("inplace_skipped_known_inplace_shape")
			} else {
				Violation(rt, "C07/inplace-wrong-output", "optimized patch applied in place differs from the new build: %s (%s)\nops %v", d, kd, pair.Ops)
				return
			}
		}
		Ev.ProbeIf(or.Mappings > 0, "bsdiff_series_present")
		small := false
		for _, p := range pair.New.Files() {
			if n := len(pair.New[p].Data); n > 0 && n < k.Partitions {
				small = true
			}
		}
		Ev.ProbeIf(small && or.Mappings > 0, "new_file_shorter_than_partitions")
		Ev.Eval(pair.Hash()^fnv64([]byte(kd))^s.LogHash(), or.Mappings > 0, func() interface{} {
			m := pair.Sample()
			m["knobs"], m["mappings"], m["schedule"], m["sched_steps"] = kd, or.Mappings, s.Trace(40), s.Steps
			return m
		})
	})
}

func drawSlicerFromSeed(seed uint64) *Slicer {
	m := int(seed % 5)
	if m == 0 {
		return nil
	}
	return NewSlicer(m, seed)
}
