package sim

import (
	"bytes"
	"crypto/sha256"
	"encoding/hex"
	"fmt"
	"os"
	"os/exec"
	"path/filepath"
	"regexp"
	"runtime"
	"testing"

	"github.com/golang/protobuf/proto"
	"github.com/itchio/wharf/bsdiff"
	"github.com/itchio/wharf/pwr"
)

// cpuCases: pairs for which the partitioning of the old file's suffix array matters (a run of the
// old file that straddles a partition boundary, with a shorter decoy of its start elsewhere), plus
// ordinary edited pairs.
func cpuCases() [][2][]byte {
	var out [][2][]byte
	for seed := uint64(1); seed <= 6; seed++ {
		r := NewRng(seed * 977)
		old := Bytes(seed*31+1, 128*KiB+r.Intn(200*KiB))
		var nw []byte
		for p := 2; p <= 8; p++ {
			// boundary of partition 1|2 of p partitions
			b := len(old) / p
			lo, hi := b-20-r.Intn(200), b+3000+r.Intn(3000)
			if lo < 0 || hi > len(old) {
				continue
			}
			x := old[lo:hi]
			d := r.Intn(len(old) - 200)
			copy(old[d:d+100], x[:100]) // decoy of the run's start
			nw = append(nw, Bytes(seed+uint64(p), 500+r.Intn(1000))...)
			nw = append(nw, x...)
		}
		nw = append(nw, Bytes(seed+99, 3000)...)
		out = append(out, [2][]byte{old, nw})
	}
	return out
}

// cpuDigest diffs every case with every partition count and digests all messages and, for a small
// build pair, the optimized patch.
func cpuDigest() (string, error) {
	h := sha256.New()
	for ci, c := range cpuCases() {
		for _, partitions := range []int{0, 1, 2, 3, 4, 8, 16} {
			dc := &bsdiff.DiffContext{Partitions: partitions}
			err := dc.Do(bytes.NewReader(c[0]), bytes.NewReader(c[1]), func(m proto.Message) error {
				b, err := proto.Marshal(m)
				if err != nil {
					return err
				}
				fmt.Fprintf(h, "%d/%d/%d:", ci, partitions, len(b))
				h.Write(b)
				return nil
			}, Quiet())
			if err != nil {
				return "", fmt.Errorf("case %d partitions %d: %w", ci, partitions, err)
			}
		}
	}
	// whole pipeline: diff + optimize of a build pair made of the same material
	dir, cleanup := RunDir()
	defer cleanup()
	old, nw := Tree{}, Tree{}
	for i, c := range cpuCases() {
		old[fmt.Sprintf("f%d", i)] = &Entry{Kind: KFile, Data: c[0]}
		nw[fmt.Sprintf("f%d", i)] = &Entry{Kind: KFile, Data: c[1]}
	}
	oldDir, newDir := filepath.Join(dir, "old"), filepath.Join(dir, "new")
	Must(old.Materialize(oldDir), "old")
	Must(nw.Materialize(newDir), "new")
	dr := Diff(oldDir, newDir, &pwr.CompressionSettings{Algorithm: pwr.CompressionAlgorithm_NONE}, DiffSeams{})
	if dr.Err != nil || dr.Panic != "" {
		return "", fmt.Errorf("diff: %v %s", dr.Err, dr.Panic)
	}
	h.Write(dr.Patch)
	h.Write(dr.Sig)
	for _, partitions := range []int{2, 5} {
		or := Optimize(dr.Patch, oldDir, newDir, OptimizeKnobs{Partitions: partitions}, nil, nil)
		if or.Err != nil || or.Panic != "" {
			return "", fmt.Errorf("optimize: %v %s", or.Err, or.Panic)
		}
		h.Write(or.Patch)
	}
	return hex.EncodeToString(h.Sum(nil)), nil
}

// TestC15Cpus: the same inputs and settings give the same bytes whatever number of CPUs the process
// is allowed to use (GOMAXPROCS can be varied in-process and is by TestC15; the CPU count the
// runtime reports at start cannot, so this test re-executes itself under taskset).
func TestC15Cpus(t *testing.T) {
	Ev.Property = "C15"
	if os.Getenv("VERIF_C15_CHILD") != "" {
		d, err := cpuDigest()
		if err != nil {
			fmt.Printf("C15CPU error=%v\n", err)
			return
		}
		fmt.Printf("C15CPU numcpu=%d digest=%s\n", runtime.NumCPU(), d)
		return
	}
	ft := &fatalT{t: t}
	own, err := cpuDigest()
	if err != nil {
		Violation(ft, "C15/cpu-digest-failed", "%v", err)
		return
	}
	taskset, lerr := exec.LookPath("taskset")
	if lerr != nil {
		panic(HarnessError{"taskset not available: " + lerr.Error()})
	}
	re := regexp.MustCompile(`C15CPU numcpu=(\d+) digest=([0-9a-f]+)`)
	for _, cpus := range []string{"0", "0-1", "0-2", "0-6"} {
		cmd := exec.Command(taskset, "-c", cpus, os.Args[0], "-test.run=^TestC15Cpus$", "-test.count=1")
		cmd.Env = append(os.Environ(), "VERIF_C15_CHILD=1", "VERIF_EVIDENCE_OUT=")
		out, cerr := cmd.CombinedOutput()
		m := re.FindSubmatch(out)
		if m == nil {
			if cerr != nil && bytes.Contains(out, []byte("itchio/wharf/")) {
				Violation(ft, "C15/cpu-child-crashed", "the same diffs crash when the process may use CPUs %s only:\n%s", cpus, trunc(string(out), 3000))
				return
			}
			if bytes.Contains(out, []byte("C15CPU error=")) {
				Violation(ft, "C15/cpu-child-failed", "the same diffs fail when the process may use CPUs %s only: %s", cpus, trunc(string(out), 1000))
				return
			}
			panic(HarnessError{fmt.Sprintf("child under taskset -c %s printed no digest (%v): %s", cpus, cerr, trunc(string(out), 500))})
		}
		Ev.Eval(fnv64([]byte(cpus)), true, func() interface{} {
			return map[string]interface{}{"cpus_allowed": cpus, "numcpu_seen_by_child": string(m[1]), "digest": string(m[2])}
		})
		if string(m[2]) != own {
			Violation(ft, "C15/depends-on-cpu-count", "bsdiff messages / patch / signature / optimized patch differ between this process (%d CPUs, digest %s) and a process allowed CPUs %s (%s CPUs, digest %s) for the same inputs and settings", runtime.NumCPU(), own[:16], cpus, m[1], string(m[2])[:16])
			return
		}
	}
	Ev.Probe("same_bytes_under_1_2_3_7_and_all_cpus")
}
