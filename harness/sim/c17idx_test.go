package sim

import (
	"bytes"
	"fmt"
	"path/filepath"
	"testing"

	"pgregory.net/rapid"
)

// TestC17Wide: whitelisted application of an optimized patch over an old build with thousands of
// files, so that skipped bsdiff series name old files with large indices (every index in a window
// is the target of one skipped series).
func TestC17Wide(t *testing.T) {
	Ev.Property = "C17"
	Prop(t, "C17", func(rt *rapid.T) {
		nfiles := rapid.IntRange(2030, 2300).Draw(rt, "nfiles")
		lo := rapid.IntRange(0, nfiles-30).Draw(rt, "window")
		if rapid.Bool().Draw(rt, "highwindow") {
			lo = rapid.IntRange(2000, nfiles-30).Draw(rt, "window2")
		}
		old, nw := Tree{}, Tree{}
		var windowPaths []string
		for i := 0; i < nfiles; i++ {
			p := fmt.Sprintf("w/%05d", i)
			if i >= lo && i < lo+24 {
				d := Bytes(uint64(i)*7+1, 3*BlockSize/2+i%5)
				old[p] = &Entry{Kind: KFile, Data: d}
				e := append([]byte{}, d...)
				e[100+i%50] ^= 0x55
				e = append(e[:4000], append(Bytes(uint64(i), 33), e[4000:]...)...)
				nw[p] = &Entry{Kind: KFile, Data: e}
				windowPaths = append(windowPaths, p)
				continue
			}
			old[p] = &Entry{Kind: KFile, Data: []byte{byte(i), byte(i >> 8)}}
			nw[p] = old[p]
		}
		old.Normalize()
		nw.Normalize()
		dir, cleanup := RunDir()
		defer cleanup()
		oldDir, newDir, outDir := filepath.Join(dir, "old"), filepath.Join(dir, "new"), filepath.Join(dir, "out")
		Must(old.Materialize(oldDir), "materialize old")
		Must(nw.Materialize(newDir), "materialize new")
		dr := Diff(oldDir, newDir, GenCompression(rt), DiffSeams{})
		if dr.Err != nil || dr.Panic != "" {
			Violation(rt, "C17/patch-production", "WritePatch failed: %v %s", dr.Err, dr.Panic)
			return
		}
		or := Optimize(dr.Patch, oldDir, newDir, OptimizeKnobs{Partitions: rapid.IntRange(0, 4).Draw(rt, "partitions")}, nil, nil)
		if or.Err != nil || or.Panic != "" {
			Violation(rt, "C17/patch-production", "Optimize failed: %v %s", or.Err, or.Panic)
			return
		}
		source := Walk(newDir)
		wl := map[int64]bool{}
		wlPaths := map[string]bool{}
		keep := rapid.Uint64().Draw(rt, "keepmask")
		for i, f := range source.Files {
			inWindow := i >= lo && i < lo+24
			if (inWindow && keep>>(uint(i-lo))&1 == 1) || (!inWindow && i%97 == 0) || i == len(source.Files)-1 {
				wl[int64(i)] = true
				wlPaths[f.Path] = true
			}
		}
		ar := ApplyFresh(or.Patch, oldDir, outDir, ApplyOpts{Whitelist: wl})
		desc := fmt.Sprintf("optimized patch (%d mappings) over %d files, series with old-file indices %d..%d", or.Mappings, nfiles, lo, lo+23)
		if ar.Panic != "" || ar.Err != nil {
			Violation(rt, "C17/apply-failed", "whitelisted apply failed at %s: %v %s (%s, whitelist of %d files)", ar.Stage, ar.Err, ar.Panic, desc, len(wl))
			return
		}
		if ar.Touched != int64(len(wl)) {
			Violation(rt, "C17/touched-count", "GetTouchedFiles = %d, whitelist has %d (%s)", ar.Touched, len(wl), desc)
			return
		}
		got := MustSnapshot(outDir).Tree
		for p := range wlPaths {
			e, ok := got[p]
			if !ok || e.Kind != KFile || !bytes.Equal(e.Data, nw[p].Data) {
				Violation(rt, "C17/wrong-content", "whitelisted file %s differs from the new build (%s)", p, desc)
				return
			}
		}
		Ev.ProbeIf(or.Mappings >= 24, "skipped_bsdiff_series_with_large_old_file_indices")
		Ev.Eval(fnv64([]byte(fmt.Sprint(nfiles, lo, keep))), or.Mappings > 0, func() interface{} {
			return map[string]interface{}{"files": nfiles, "window": []int{lo, lo + 23}, "mappings": or.Mappings, "whitelist_size": len(wl)}
		})
	})
}
