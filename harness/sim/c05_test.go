package sim

import (
	"context"
	"fmt"
	"os"
	"path/filepath"
	"strings"
	"testing"

	"github.com/itchio/lake/tlc"
	"github.com/itchio/wharf/pwr"
	"pgregory.net/rapid"
)

// signTree materialises t into dir and returns its signature (container + hashes) computed by
// wharf's stand-alone signer (C04 establishes that it is the right signature).
func signTree(t Tree, dir string) *pwr.SignatureInfo {
	Must(t.Materialize(dir), "materialize signed build")
	c, h, err := ComputeSig(dir)
	Must(err, "ComputeSignature")
	return &pwr.SignatureInfo{Container: c, Hashes: h}
}

// shuffleDirs permutes the container's directory (and symlink) lists: their order is not part of a
// signature's meaning (containers walked from a zip list directories in map order, children before
// parents included), block hashes only depend on the order of files.
func shuffleDirs(si *pwr.SignatureInfo, seed uint64) {
	r := NewRng(seed)
	if r.Intn(2) == 0 {
		// directories that are implied by the entries below them need not be listed at all
		// (containers walked from a zip archive only list the directories the archive has entries
		// for, plus direct parents)
		implied := func(p string) bool {
			pre := p + "/"
			for _, f := range si.Container.Files {
				if strings.HasPrefix(f.Path, pre) {
					return true
				}
			}
			for _, f := range si.Container.Symlinks {
				if strings.HasPrefix(f.Path, pre) {
					return true
				}
			}
			return false
		}
		var kept []*tlc.Dir
		dropped := 0
		for _, dir := range si.Container.Dirs {
			if implied(dir.Path) && r.Intn(2) == 0 {
				dropped++
				continue
			}
			kept = append(kept, dir)
		}
		si.Container.Dirs = kept
		Ev.ProbeIf(dropped > 0, "container_omits_directories_implied_by_their_entries")
	}
	d := si.Container.Dirs
	for i := len(d) - 1; i > 0; i-- {
		j := r.Intn(i + 1)
		d[i], d[j] = d[j], d[i]
	}
	l := si.Container.Symlinks
	for i := len(l) - 1; i > 0; i-- {
		j := r.Intn(i + 1)
		l[i], l[j] = l[j], l[i]
	}
	Ev.Probe("container_dirs_and_symlinks_listed_in_shuffled_order")
}

// woundOracle checks the wounds reported for a damaged tree against the signed tree.
func woundOracle(c *tlc.Container, signed, damaged Tree, wounds []*pwr.Wound) (class, msg string) {
	real := 0
	for _, w := range wounds {
		if w.Kind == pwr.WoundKind_CLOSED_FILE {
			continue
		}
		real++
		var n int
		switch w.Kind {
		case pwr.WoundKind_FILE:
			n = len(c.Files)
		case pwr.WoundKind_DIR:
			n = len(c.Dirs)
		case pwr.WoundKind_SYMLINK:
			n = len(c.Symlinks)
		default:
			return "C05/wound-unknown-kind", fmt.Sprintf("wound of unknown kind %v", w.Kind)
		}
		if w.Index < 0 || int(w.Index) >= n {
			return "C05/wound-bad-index", fmt.Sprintf("wound %v names entry %d of %d", w.Kind, w.Index, n)
		}
		if w.Start < 0 || w.Start > w.End {
			return "C05/wound-bad-range", fmt.Sprintf("wound for %s %d has range [%d,%d)", w.Kind, w.Index, w.Start, w.End)
		}
	}
	if real == 0 {
		return "C05/no-wound", "the directory differs from the signed build but no wound was reported"
	}
	for fi, f := range c.Files {
		se := signed[f.Path]
		de, ok := damaged[f.Path]
		if !ok || de.Kind != KFile {
			continue // missing / wrong kind: covered by the "at least one wound" clause
		}
		covered := func(off int64) bool {
			for _, w := range wounds {
				if w.Kind == pwr.WoundKind_FILE && w.Index == int64(fi) && w.Start <= off && off < w.End {
					return true
				}
			}
			return false
		}
		n := len(se.Data)
		if len(de.Data) < n {
			n = len(de.Data)
		}
		for off := 0; off < n; off++ {
			if se.Data[off] != de.Data[off] {
				if !covered(int64(off)) {
					return "C05/difference-not-covered", fmt.Sprintf("%s (file %d) differs from the signed file at offset %d (signed size %d, actual %d) but no wound of that file contains the offset; wounds: %v", f.Path, fi, off, len(se.Data), len(de.Data), woundList(wounds))
				}
				// jump to the next block: one check per block is enough and keeps this linear
				off = (off/BlockSize+1)*BlockSize - 1
			}
		}
		if len(de.Data) != len(se.Data) {
			has := false
			for _, w := range wounds {
				if w.Kind == pwr.WoundKind_FILE && w.Index == int64(fi) {
					has = true
				}
			}
			if !has {
				return "C05/length-change-not-wounded", fmt.Sprintf("%s (file %d) has %d bytes instead of %d but got no wound; wounds: %v", f.Path, fi, len(de.Data), len(se.Data), woundList(wounds))
			}
		}
	}
	return "", ""
}

func woundList(ws []*pwr.Wound) []string {
	var out []string
	for _, w := range ws {
		if w.Kind == pwr.WoundKind_CLOSED_FILE {
			continue
		}
		out = append(out, fmt.Sprintf("%s#%d[%d,%d)", w.Kind, w.Index, w.Start, w.End))
		if len(out) > 12 {
			out = append(out, "…")
			break
		}
	}
	return out
}

// TestC05: validation reports every deviation from the signed build and locates it.
func TestC05(t *testing.T) {
	Ev.Rule = "generated builds x stored-data fault sequences (flip/truncate/extend/empty/fill at block-edge-biased positions, delete, kind swaps incl. subtree-hiding ones, retargeted symlinks, combinations); wounds-file mode decoded independently + fail-fast mode; scheduled validator goroutines; non-trivial = damaged tree differs from the signed one; distinct by (build, faults)"
	Ev.Component("ValidatorContext.Validate (dir/symlink pass, worker, validating pool, drip writer, block validator, AggregateWounds, WoundsWriter, WoundsGuardian), AssertValid", "real")
	Ev.Component("directory under validation (stored-data faults), goroutine schedule / select choice", "simulated")
	Prop(t, "C05", func(rt *rapid.T) {
		signed := GenTree(rt, GenOpts{Links: true, EmptyDirs: true, LowEntropy: true, MaxMid: 300 * KiB, Big: rapid.IntRange(0, 19).Draw(rt, "allowbig") == 0}, rapid.Uint64Range(0, 1<<20).Draw(rt, "poolseed"))
		faults := GenFaults(rt, signed, FaultOpts{Content: true, Delete: true, KindSwap: true, Links: true, Special: true, MaxFaults: 5})
		if rapid.IntRange(0, 14).Draw(rt, "longwound") == 0 {
			// a long run of adjacent damaged blocks (more than the 4 MiB aggregation limit)
			sz := 4*MiB + rapid.IntRange(1, 6).Draw(rt, "longblocks")*BlockSize + rapid.IntRange(0, 2000).Draw(rt, "longtail")
			signed["big/long.bin"] = &Entry{Kind: KFile, Data: Bytes(rapid.Uint64().Draw(rt, "longseed"), sz)}
			signed.Normalize()
			faults = append(faults, Fault{Kind: "reseed", Path: "big/long.bin", Seed: 99})
			Ev.Probe("wound_run_longer_than_4MiB")
		}
		twinImplied := false
		if rapid.IntRange(0, 7).Draw(rt, "twins") == 0 {
			twinImplied = rapid.Bool().Draw(rt, "twinimplied")
			// twin subtrees three levels deep, one of them (or a level of it) replaced by a symlink to
			// its twin: everything below seems to be there when looked up through the link
			twin := func(root string, seed uint64) {
				signed[root+"/m/s/y"] = &Entry{Kind: KFile, Data: Bytes(seed+1, 70000)}
				signed[root+"/m/s/z"] = &Entry{Kind: KFile, Data: Bytes(seed+2, 10)}
				signed[root+"/m/c/w"] = &Entry{Kind: KFile, Data: Bytes(seed+3, 10)}
				signed[root+"/m/l"] = &Entry{Kind: KLink, Dest: "s/y"}
			}
			same := rapid.Bool().Draw(rt, "twinsame")
			twin("t1", 5)
			if same {
				twin("t2", 5)
			} else {
				twin("t2", 9)
			}
			signed.Normalize()
			which := rapid.SampledFrom([]string{"t1", "t2", "t1/m", "t1/m/s"}).Draw(rt, "twinwhich")
			dest := map[string]string{"t1": "t2", "t2": "t1", "t1/m": "../t2/m", "t1/m/s": "../../t2/m/s"}[which]
			if rapid.Bool().Draw(rt, "twinonly") {
				// nothing else is wrong with the directory: the only wound there is to report is this one
				faults = nil
			}
			faults = append([]Fault{{Kind: "tolink", Path: which, Dest: dest}}, faults...)
			Ev.Probe("directory_replaced_by_symlink_to_twin_directory")
		}
		spec := drawSched(rt)
		damaged, applied := ApplyFaults(signed, faults)
		differs := signed.Diff(damaged) != ""

		dir, cleanup := RunDir()
		defer cleanup()
		si := signTree(signed, filepath.Join(dir, "signed"))
		if twinImplied {
			// the container lists what a walk of a zip archive without directory entries lists: the
			// directories that files are directly in; t1, t1/m, t2, t2/m go without saying
			var kept []*tlc.Dir
			for _, d := range si.Container.Dirs {
				switch d.Path {
				case "t1", "t1/m", "t2", "t2/m":
					continue
				}
				kept = append(kept, d)
			}
			si.Container.Dirs = kept
			Ev.Probe("twin_chain_of_two_implied_directory_levels")
		}
		if rapid.IntRange(0, 2).Draw(rt, "shuffledirs") == 0 {
			shuffleDirs(si, rapid.Uint64().Draw(rt, "shuffleseed"))
		}
		// (the directory's own name is nobody's business: percent signs, spaces, colons)
		target := filepath.Join(dir, rapid.SampledFrom([]string{"target", "target", "target", "100% Orange Juice", "50%", "1:x y", "a#b?c", "Game-1.2.zip", "UPPER.ZIP"}).Draw(rt, "targetname"))
		// ... nor is the way its path is spelled (the string is handed over as it is)
		switch rapid.IntRange(0, 6).Draw(rt, "targetspelling") {
		case 0:
			target = dir + "/./" + filepath.Base(target)
		case 1:
			target = dir + "//" + filepath.Base(target)
		case 2:
			target = target + "/"
		}
		Must(damaged.Materialize(target), "materialize damaged")
		countFaults(applied)

		woundsPath := filepath.Join(dir, "wounds.pww")
		var verr, aerr error
		var hasWounds bool
		s := &Sched{Spec: spec, MaxSteps: 300000}
		s.Run(t, func() {
			vctx := &pwr.ValidatorContext{WoundsPath: woundsPath, Consumer: Quiet()}
			verr = vctx.Validate(context.Background(), target, si)
			hasWounds = vctx.WoundsConsumer.HasWounds()
		})
		if s.BudgetExceeded {
			return
		}
		if s.Stuck || s.Panic != "" {
			Violation(rt, "C05/validate-stuck-or-panic", "Validate(wounds file): stuck=%v panic=%s\nfaults %v\n%s", s.Stuck, s.Panic, faultStrings(applied), s.StuckStacks)
			return
		}
		s2 := &Sched{Spec: spec, MaxSteps: 300000}
		s2.Run(t, func() { aerr = pwr.AssertValid(target, si) })
		if s2.BudgetExceeded {
			return
		}
		if s2.Stuck || s2.Panic != "" {
			Violation(rt, "C05/assertvalid-stuck-or-panic", "AssertValid: stuck=%v panic=%s\nfaults %v", s2.Stuck, s2.Panic, faultStrings(applied))
			return
		}
		if differs {
			// plain reporting mode, one context for the damaged directory and then for the pristine
			// signed one: the second verdict must not remember the first
			pv := &pwr.ValidatorContext{Consumer: Quiet()}
			e1 := pv.Validate(context.Background(), target, si)
			e2 := pv.Validate(context.Background(), filepath.Join(dir, "signed"), si)
			if e1 == nil && e2 == nil && pv.WoundsConsumer.HasWounds() {
				Violation(rt, "C05/context-reuse", "a ValidatorContext that validated a damaged directory and then the pristine build says HasWounds() for the pristine build (TotalCorrupted %d)", pv.WoundsConsumer.TotalCorrupted())
				return
			}
			if e2 != nil {
				Violation(rt, "C05/context-reuse", "second validation (pristine build) with a reused context failed: %v", e2)
				return
			}
		}
		var wounds []*pwr.Wound
		if b, err := os.ReadFile(woundsPath); err == nil {
			_, ws, derr := DecodeWounds(b)
			if derr != nil {
				Violation(rt, "C05/wounds-file-undecodable", "wounds file: %v", derr)
				return
			}
			wounds = ws
		}
		if differs {
			if aerr == nil {
				Violation(rt, "C05/failfast-says-valid", "directory differs from the signed build (%v) but fail-fast validation returned no error\nsigned %v", faultStrings(applied), signed.Describe())
				return
			}
			if verr == nil {
				if !hasWounds {
					Violation(rt, "C05/no-wound", "directory differs (%v) but Validate returned nil and HasWounds() is false", faultStrings(applied))
					return
				}
				if class, msg := woundOracle(si.Container, signed, damaged, wounds); class != "" {
					Violation(rt, class, "%s\nfaults %v", msg, faultStrings(applied))
					return
				}
			} else {
				// an error is not a false "valid"; wounds written so far must still be well-formed
				Ev.Probe("validate_returned_error_instead_of_wounds")
				Ev.Note("Validate(wounds file) error on damaged dir: " + trunc(verr.Error(), 160))
				for _, w := range wounds {
					if w.Kind != pwr.WoundKind_CLOSED_FILE && (w.Start < 0 || w.Start > w.End) {
						Violation(rt, "C05/wound-bad-range", "wound %s#%d has range [%d,%d)", w.Kind, w.Index, w.Start, w.End)
						return
					}
				}
			}
		} else {
			if verr != nil || aerr != nil || hasWounds {
				Violation(rt, "C05/valid-dir-wounded", "directory equals the signed build but Validate=%v AssertValid=%v HasWounds=%v", verr, aerr, hasWounds)
				return
			}
		}
		Ev.ProbeIf(len(wounds) > 1024, "more_than_1024_wounds")
		Ev.ProbeIf(s.Leaked || s2.Leaked, "goroutines_left_blocked_after_return")
		Ev.Eval(signed.Hash()^fnv64([]byte(joinLines(faultStrings(applied), 99))), differs, func() interface{} {
			return map[string]interface{}{"signed": signed.Describe(), "faults": faultStrings(applied), "wounds": woundList(wounds),
				"validate_error": fmt.Sprint(verr), "failfast_error": trunc(fmt.Sprint(aerr), 200), "schedule": s.Trace(30)}
		})
	})
}
