package sim

import (
	"fmt"
	"sort"

	"pgregory.net/rapid"
)

// Fault is one stored-data fault applied to a valid copy of a build.
type Fault struct {
	Kind string // flip, truncate, extend, empty, delete, fill, tofile, todir, tolink, retarget, rmdir
	Path string
	Off  int
	N    int
	Seed uint64
	Dest string
}

func (f Fault) String() string {
	switch f.Kind {
	case "flip":
		return fmt.Sprintf("flip %s@%d", f.Path, f.Off)
	case "truncate":
		return fmt.Sprintf("truncate %s to %d", f.Path, f.N)
	case "extend", "fill":
		return fmt.Sprintf("%s %s by %d", f.Kind, f.Path, f.N)
	case "tolink", "retarget", "hardlink":
		return fmt.Sprintf("%s %s -> %s", f.Kind, f.Path, f.Dest)
	}
	return f.Kind + " " + f.Path
}

// FaultOpts selects fault kinds.
type FaultOpts struct {
	Content   bool // flip / truncate / extend / empty / fill
	Delete    bool
	KindSwap  bool // entries replaced by another kind (may hide whole subtrees)
	Links     bool // retarget
	Special   bool // with KindSwap: a named pipe in place of a file, a file replaced by a hard link to another file of the build
	MaxFaults int
}

func blockEdgeOffset(rt *rapid.T, n int, label string) int {
	if n <= 0 {
		return 0
	}
	c := rapid.IntRange(0, 6).Draw(rt, label+".class")
	var off int
	switch c {
	case 0:
		off = 0
	case 1:
		off = n - 1
	case 2: // first byte of the last block
		off = (n - 1) / BlockSize * BlockSize
	case 3, 4: // around a block edge
		nb := n / BlockSize
		if nb == 0 {
			off = rapid.IntRange(0, n-1).Draw(rt, label+".any")
		} else {
			off = rapid.IntRange(1, nb).Draw(rt, label+".blk")*BlockSize + rapid.IntRange(-1, 1).Draw(rt, label+".d")
		}
	default:
		off = rapid.IntRange(0, n-1).Draw(rt, label+".any2")
	}
	if off >= n {
		off = n - 1
	}
	if off < 0 {
		off = 0
	}
	return off
}

// GenFaults draws a fault sequence against tree t (the valid build).
func GenFaults(rt *rapid.T, t Tree, o FaultOpts) []Fault {
	if o.MaxFaults == 0 {
		o.MaxFaults = 4
	}
	n := rapid.IntRange(1, o.MaxFaults).Draw(rt, "nfaults")
	paths := t.Paths()
	if len(paths) == 0 {
		return nil
	}
	var out []Fault
	for i := 0; i < n; i++ {
		p := rapid.SampledFrom(paths).Draw(rt, "faultpath")
		e := t[p]
		var kinds []string
		switch e.Kind {
		case KFile:
			if o.Content {
				if len(e.Data) > 0 {
					kinds = append(kinds, "flip", "flip", "truncate", "extend", "empty", "reseed", "weakcollide")
				} else {
					kinds = append(kinds, "fill")
				}
			}
			if o.Delete {
				kinds = append(kinds, "delete")
			}
			if o.KindSwap {
				kinds = append(kinds, "todir", "tolink")
				if o.Special {
					kinds = append(kinds, "tofifo", "hardlink")
				}
			}
		case KDir:
			if o.KindSwap {
				kinds = append(kinds, "tofile", "tolink", "rmdir")
			}
		case KLink:
			if o.Links {
				kinds = append(kinds, "retarget")
			}
			if o.KindSwap {
				kinds = append(kinds, "tofile", "todir")
			}
			if o.Delete {
				kinds = append(kinds, "delete")
			}
		}
		if len(kinds) == 0 {
			continue
		}
		f := Fault{Kind: rapid.SampledFrom(kinds).Draw(rt, "faultkind"), Path: p, Seed: rapid.Uint64().Draw(rt, "faultseed")}
		switch f.Kind {
		case "flip", "weakcollide":
			f.Off = blockEdgeOffset(rt, len(e.Data), "flipoff")
		case "truncate":
			f.N = blockEdgeOffset(rt, len(e.Data), "truncto")
		case "extend", "fill":
			tail := BlockSize - len(e.Data)%BlockSize
			f.N = rapid.SampledFrom([]int{1, 2, 100, tail - 1, tail, tail + 1, BlockSize, 2*BlockSize + 5, 3 * BlockSize}).Draw(rt, "extendby")
			if f.N < 1 {
				f.N = 1
			}
		case "hardlink":
			var others []string
			for _, q := range t.Files() {
				if q != p {
					others = append(others, q)
				}
			}
			if len(others) == 0 {
				continue
			}
			f.Dest = rapid.SampledFrom(others).Draw(rt, "hardlinkto")
		case "tolink":
			f.Dest = rapid.SampledFrom([]string{"nowhere", "../x", "f0", "a", ".", "..", "../c", "c", "b", "../a"}).Draw(rt, "faultdest")
		case "retarget":
			f.Dest = rapid.SampledFrom([]string{"nowhere", "../x", "f0", "a", ".", "=./", "=/", "=x/../", "=//"}).Draw(rt, "faultdest")
			// "=..." variants: a different string that a path cleaner would map to the signed destination
			if len(f.Dest) > 1 && f.Dest[0] == '=' {
				switch f.Dest[1:] {
				case "./":
					f.Dest = "./" + e.Dest
				case "/":
					f.Dest = e.Dest + "/"
				case "x/../":
					f.Dest = "x/../" + e.Dest
				default:
					f.Dest = e.Dest + "//."
				}
			}
		}
		out = append(out, f)
	}
	return out
}

// ApplyFaults returns a damaged clone of t. Faults on paths that vanished because an earlier
// fault removed a parent are skipped. It also returns the faults actually applied.
func ApplyFaults(t Tree, fs []Fault) (Tree, []Fault) {
	d := t.Clone()
	var applied []Fault
	for _, f := range fs {
		e, ok := d[f.Path]
		if !ok {
			continue
		}
		switch f.Kind {
		case "flip", "weakcollide", "truncate", "extend", "fill", "empty", "reseed":
			// the two names of a hard-linked file keep the content they had when linked
			if e.HardTo != "" || d.isHardLinkTarget(f.Path) {
				continue
			}
		}
		switch f.Kind {
		case "flip":
			if e.Kind != KFile || f.Off >= len(e.Data) {
				continue
			}
			nd := append([]byte{}, e.Data...)
			nd[f.Off] ^= byte(1 << (f.Seed % 8))
			e.Data = nd
		case "weakcollide":
			// three adjacent bytes changed by +1, -2, +1 inside one block: both sums of the rsync
			// rolling checksum are preserved, only the strong hash notices
			if e.Kind != KFile {
				continue
			}
			nd, ok := WeakCollide(e.Data, f.Off)
			if !ok {
				continue
			}
			e.Data = nd
		case "truncate":
			if e.Kind != KFile || f.N >= len(e.Data) {
				continue
			}
			e.Data = append([]byte{}, e.Data[:f.N]...)
		case "extend", "fill":
			if e.Kind != KFile {
				continue
			}
			e.Data = append(append([]byte{}, e.Data...), Bytes(f.Seed, f.N)...)
		case "empty":
			if e.Kind != KFile {
				continue
			}
			e.Data = []byte{}
		case "reseed":
			// whole content replaced, same length: every block differs
			if e.Kind != KFile || len(e.Data) == 0 {
				continue
			}
			e.Data = Bytes(f.Seed^0x5eed, len(e.Data))
		case "delete":
			if e.Kind == KDir {
				continue
			}
			delete(d, f.Path)
		case "rmdir":
			d.RemoveSubtree(f.Path)
		case "tofile":
			d.RemoveSubtree(f.Path)
			d[f.Path] = &Entry{Kind: KFile, Data: Bytes(f.Seed, int(f.Seed%3000))}
		case "todir":
			d.RemoveSubtree(f.Path)
			d[f.Path] = &Entry{Kind: KDir}
			if f.Seed%2 == 0 {
				d[f.Path+"/stray"] = &Entry{Kind: KFile, Data: Bytes(f.Seed, 10)}
			}
			if f.Seed%3 == 0 {
				d[f.Path+"/straydir/deep"] = &Entry{Kind: KFile, Data: Bytes(f.Seed, 5)}
				d.Normalize()
			}
		case "tolink":
			d.RemoveSubtree(f.Path)
			d[f.Path] = &Entry{Kind: KLink, Dest: f.Dest}
		case "tofifo":
			if e.Kind != KFile {
				continue
			}
			d[f.Path] = &Entry{Kind: KFifo}
		case "hardlink":
			te, ok := d[f.Dest]
			if e.Kind != KFile || !ok || te.Kind != KFile || te.HardTo != "" || f.Dest == f.Path {
				continue
			}
			// nothing may already be linked to this path
			linked := false
			for _, oe := range d {
				if oe.HardTo == f.Path {
					linked = true
				}
			}
			if linked {
				continue
			}
			d[f.Path] = &Entry{Kind: KFile, Data: te.Data, Exec: te.Exec, HardTo: f.Dest}
		case "retarget":
			if e.Kind != KLink || e.Dest == f.Dest {
				continue
			}
			e.Dest = f.Dest
		}
		applied = append(applied, f)
	}
	return d, applied
}

func faultStrings(fs []Fault) []string {
	var out []string
	for _, f := range fs {
		out = append(out, f.String())
	}
	return out
}

func countFaults(fs []Fault) {
	for _, f := range fs {
		Ev.Fault("stored_"+f.Kind, 1)
	}
}

func sortedKeys(m map[string]int) []string {
	var ks []string
	for k := range m {
		ks = append(ks, k)
	}
	sort.Strings(ks)
	return ks
}

// WeakCollide returns a copy of data in which three adjacent bytes near off, all inside one
// 64 KiB block, are changed by +1, -2, +1 without wrapping: the rsync weak checksum of the block
// is unchanged. ok is false if no suitable position exists near off.
func WeakCollide(data []byte, off int) ([]byte, bool) {
	for d := 0; d < 4096; d++ {
		for _, i := range []int{off + d, off - d} {
			if i < 0 || i+2 >= len(data) || i/BlockSize != (i+2)/BlockSize {
				continue
			}
			if data[i] < 255 && data[i+1] >= 2 && data[i+2] < 255 {
				nd := append([]byte{}, data...)
				nd[i]++
				nd[i+1] -= 2
				nd[i+2]++
				return nd, true
			}
		}
	}
	return nil, false
}

func (t Tree) isHardLinkTarget(p string) bool {
	for _, e := range t {
		if e.HardTo == p {
			return true
		}
	}
	return false
}
