package sim

import (
	"fmt"
	"github.com/itchio/wharf/pwr/bowl"
	"path/filepath"
	"testing"

	"github.com/itchio/wharf/pwr"
	"pgregory.net/rapid"
)

// patchProbes derives the C01 probes from an independently decoded patch.
func patchProbes(rp *RefPatch) {
	for i, fs := range rp.Files {
		if fs.Header.Type != pwr.SyncHeader_RSYNC {
			continue
		}
		sf := rp.Source.Files[i]
		dataRun, maxRun := 0, 0
		for _, op := range fs.Ops {
			if op.Type == pwr.SyncOp_DATA {
				dataRun += len(op.Data)
				if dataRun > maxRun {
					maxRun = dataRun
				}
			} else {
				dataRun = 0
			}
		}
		Ev.ProbeIf(maxRun > 4*MiB, "data_run_over_4MiB_split")
		Ev.ProbeIf(sf.Size > 4*MiB+2*BlockSize, "differ_buffer_wrap")
		if len(fs.Ops) == 1 && fs.Ops[0].Type == pwr.SyncOp_BLOCK_RANGE && fs.Ops[0].BlockIndex == 0 {
			tf := rp.Target.Files[fs.Ops[0].FileIndex]
			if tf.Size == sf.Size && fs.Ops[0].BlockSpan == (sf.Size+BlockSize-1)/BlockSize {
				Ev.Probe("whole_file_op")
			} else if sf.Size%BlockSize == 0 && sf.Size < tf.Size {
				Ev.Probe("new_is_block_aligned_prefix_of_larger_old")
			}
		}
		Ev.ProbeIf(sf.Size == 0, "empty_new_file")
		if n := len(fs.Ops); n > 0 && fs.Ops[n-1].Type == pwr.SyncOp_BLOCK_RANGE && sf.Size%BlockSize != 0 {
			Ev.Probe("short_tail_matched")
		}
	}
	Ev.ProbeIf(len(rp.Source.Symlinks) > 0, "symlink_present")
	Ev.ProbeIf(len(rp.Source.Dirs) > 0, "dir_present")
}

// TestC01: diff then apply (fresh) reproduces the new build, for every compression setting,
// under scheduled interleavings of the three per-file diff goroutines and seeded read slicing.
func TestC01(t *testing.T) {
	Ev.Rule = "generated build pairs (boundary-biased sizes, shared blocks, edit scripts) x compression x read slicing x schedule; non-trivial = both builds non-empty; distinct by hash of (old,new,compression,slicing,schedule log)"
	Ev.Component("pwr.DiffContext.WritePatch, wsync, multiread, taskgroup, ctxcopy, wire, compressors, patcher, fresh bowl, lake fspool, savior seeksource/decompressors", "real")
	Ev.Component("new-build pool reads, patch/signature writers, patch source", "simulated (short reads, park points)")
	Ev.Component("goroutine interleaving, select choice", "seeded scheduler over instrumented copy")
	Ev.Assume("no I/O errors are injected: the property is about successful runs")
	Prop(t, "C01", func(rt *rapid.T) {
		pair := GenPair(rt, GenOpts{Big: true, Links: true, EmptyDirs: true, KindChange: true, DirFile: true, LowEntropy: true})
		comp := GenCompression(rt)
		srcSlice := drawSlicer(rt, "srcslice")
		patchSlice := drawSlicer(rt, "patchslice")
		poolSlice := drawSlicer(rt, "poolslice")
		spec := drawSched(rt)
		eofWith := rapid.Bool().Draw(rt, "eofwith")
		// (and an empty read now and then: legal for an io.Reader, if discouraged)
		zeroReads := rapid.SampledFrom([]int{0, 0, 0, 2, 3, 7}).Draw(rt, "zeroreads")
		sigViaFile := rapid.Bool().Draw(rt, "sigviafile")

		dir, cleanup := RunDir()
		defer cleanup()
		oldDir, newDir, outDir := filepath.Join(dir, "old"), filepath.Join(dir, "new"), filepath.Join(dir, "out")
		Must(pair.Old.Materialize(oldDir), "materialize old")
		Must(pair.New.Materialize(newDir), "materialize new")

		s := &Sched{Spec: spec, MaxSteps: 200000}
		var dr *DiffResult
		s.Run(t, func() {
			dr = Diff(oldDir, newDir, comp, DiffSeams{SourceSlice: srcSlice, Yield: s.Yield, EOFWith: eofWith, ZeroReads: zeroReads, SigViaFile: sigViaFile})
		})
		if s.BudgetExceeded {
			return
		}
		if s.Stuck {
			Violation(rt, "C01/diff-stuck", "WritePatch deadlocked: no runnable task\n%s\ntrace:\n%s", s.StuckStacks, joinLines(s.Trace(60), 60))
			return
		}
		if s.Panic != "" || dr.Panic != "" {
			Violation(rt, "C01/diff-panic", "WritePatch panicked: %s%s", s.Panic, dr.Panic)
			return
		}
		if dr.Err != nil {
			Violation(rt, "C01/diff-error", "WritePatch returned %v (comp %s)", dr.Err, CompString(comp))
			return
		}
		if srcSlice != nil {
			Ev.Fault("short_read_source_pool", srcSlice.Cuts)
		}

		// sometimes the Close of one of the entry writers fails (the disk reports an error when the
		// file is closed): the application must not report success then
		var fcb *FailCloseBowl
		var wrap func(bowl.Bowl) bowl.Bowl
		if rapid.IntRange(0, 5).Draw(rt, "closefails") == 0 {
			fcb = &FailCloseBowl{N: rapid.IntRange(1, 4).Draw(rt, "closefailswhich")}
			wrap = func(b bowl.Bowl) bowl.Bowl { fcb.Bowl = b; return fcb }
		}
		ar := ApplyFresh(dr.Patch, oldDir, outDir, ApplyOpts{PatchSlice: patchSlice, PoolSlice: poolSlice, WrapBowl: wrap})
		if fcb != nil && fcb.Fired {
			Ev.Fault("entry_writer_close_error", 1)
			if ar.Panic == "" && ar.Err == nil {
				Violation(rt, "C01/close-error-swallowed", "the Close of entry writer #%d failed, yet the application (and Commit) returned nil (comp %s)", fcb.N, CompString(comp))
			}
			return
		}
		if patchSlice != nil {
			Ev.Fault("short_read_patch_source", patchSlice.Cuts)
		}
		if poolSlice != nil {
			Ev.Fault("short_read_old_pool", poolSlice.Cuts)
		}
		if ar.Panic != "" {
			Violation(rt, "C01/apply-panic", "apply panicked at %s: %s", ar.Stage, ar.Panic)
			return
		}
		if ar.Err != nil {
			Violation(rt, "C01/apply-error", "apply failed at %s: %+v (comp %s)", ar.Stage, ar.Err, CompString(comp))
			return
		}
		got := MustSnapshot(outDir).Tree
		if d := pair.New.Diff(got); d != "" {
			Violation(rt, "C01/wrong-output", "fresh apply differs from new build: %s\nops: %v\ncomp %s", d, pair.Ops, CompString(comp))
			return
		}
		if rp, err := DecodePatch(dr.Patch); err == nil {
			patchProbes(rp)
		} else {
			Violation(rt, "C01/undecodable-patch", "independent decoder rejects the patch: %v", err)
			return
		}
		h := pair.Hash() ^ fnv64([]byte(CompString(comp)), []byte(slicerDesc(srcSlice)+slicerDesc(patchSlice)+slicerDesc(poolSlice))) ^ s.LogHash()
		Ev.Eval(h, pair.Nontrivial(), func() interface{} {
			m := pair.Sample()
			m["compression"] = CompString(comp)
			m["slicing"] = fmt.Sprintf("src=%s patch=%s pool=%s", slicerDesc(srcSlice), slicerDesc(patchSlice), slicerDesc(poolSlice))
			m["schedule_first_steps"] = s.Trace(40)
			m["sched_steps"] = s.Steps
			return m
		})
	})
}
