package sim

import (
	"bytes"
	"fmt"
	"io"
	"testing"

	"github.com/itchio/wharf/wsync"
	"pgregory.net/rapid"
)

const maxDataOp = 4 * MiB // "no data operation exceeds the 4MiB limit" (C11)

type wsyncCase struct {
	ApplyFirst bool // the diff runs on a brand-new context whose first use was applying an operation
	AbortFirst int  // > 0: first run a diff on the same context that fails after this many bytes
	BS         int
	Old        [][]byte
	New        []byte
	Preferred  int64
}

func (c *wsyncCase) sample() interface{} {
	var olds []string
	for _, o := range c.Old {
		if len(o) <= 16 {
			olds = append(olds, string(o))
		} else {
			olds = append(olds, fmt.Sprintf("[%d B #%08x]", len(o), uint32(fnv64(o))))
		}
	}
	nw := string(c.New)
	if len(c.New) > 16 {
		nw = fmt.Sprintf("[%d B #%08x]", len(c.New), uint32(fnv64(c.New)))
	}
	return map[string]interface{}{"block_size": c.BS, "old": olds, "new": nw, "preferred": c.Preferred}
}

// collectOps runs the real differ over the case with the given reader and returns its ops
// (data copied out, as the API requires).
// wsync contexts are reused across cases of the same block size, as WritePatch reuses one context
// for all files of a build (a fresh context allocates a 4 MiB window every time).
var diffCtxs = map[int]*wsync.Context{}
var applyCtxs = map[int]*wsync.Context{}

func ctxFor(m map[int]*wsync.Context, bs int) *wsync.Context {
	if c, ok := m[bs]; ok {
		return c
	}
	c := wsync.NewContext(bs)
	m[bs] = c
	return c
}

func collectOps(c *wsyncCase, r *SliceReader) ([]RefOp, error, string) {
	ctx := ctxFor(diffCtxs, c.BS)
	if c.ApplyFirst {
		// a context serves both directions: this one has applied an operation before its first diff
		ctx = wsync.NewContext(c.BS)
		ctx.ApplySingle(io.Discard, nil, wsync.Operation{Type: wsync.OpData, Data: []byte{1, 2, 3}})
		Ev.Probe("context_used_for_apply_before_its_first_diff")
	}
	var sig []wsync.BlockHash
	for i, o := range c.Old {
		err := ctx.CreateSignature(t0ctx, int64(i), bytes.NewReader(o), func(h wsync.BlockHash) error {
			sig = append(sig, h)
			return nil
		})
		if err != nil {
			return nil, fmt.Errorf("CreateSignature: %w", err), ""
		}
	}
	lib := wsync.NewBlockLibrary(sig)
	var ops []RefOp
	var derr error
	p := Recover(func() {
		derr = ctx.ComputeDiff(r, lib, func(op wsync.Operation) error {
			switch op.Type {
			case wsync.OpBlockRange:
				ops = append(ops, RefOp{Kind: RefBlockRange, File: op.FileIndex, Index: op.BlockIndex, Span: op.BlockSpan})
			case wsync.OpData:
				ops = append(ops, RefOp{Kind: RefData, Data: append([]byte{}, op.Data...)})
			default:
				return fmt.Errorf("unknown op type %d", op.Type)
			}
			return nil
		}, c.Preferred)
	})
	return ops, derr, p
}

// checkOps evaluates every clause of C11 on one op list; it returns a (class, message) pair.
func checkOps(c *wsyncCase, ops []RefOp) (string, string) {
	out, err := RefRsyncApply(ops, c.Old, c.BS)
	if err != nil {
		return "C11/range-outside-old", err.Error()
	}
	if !bytes.Equal(out, c.New) {
		return "C11/wrong-reconstruction", fmt.Sprintf("replaying %d ops gives %d bytes, new content has %d (first difference at %d)", len(ops), len(out), len(c.New), firstDiff(out, c.New))
	}
	for i, op := range ops {
		if op.Kind == RefData {
			if len(op.Data) > maxDataOp {
				return "C11/data-op-over-limit", fmt.Sprintf("op %d of %d is a DATA op of %d bytes (> %d); new content %d bytes", i, len(ops), len(op.Data), maxDataOp, len(c.New))
			}
			if len(op.Data) == 0 && i != 0 {
				return "C11/empty-data-op", fmt.Sprintf("op %d is an empty DATA op but is not the first op", i)
			}
		}
		if i > 0 && op.Kind == RefBlockRange && ops[i-1].Kind == RefBlockRange && ops[i-1].File == op.File && ops[i-1].Index+ops[i-1].Span == op.Index {
			return "C11/unmerged-ranges", fmt.Sprintf("ops %d and %d are adjacent ranges of file %d ([%d+%d] then [%d+%d])", i-1, i, op.File, ops[i-1].Index, ops[i-1].Span, op.Index, op.Span)
		}
	}
	// the real applier through a pool
	sizes := make([]int64, len(c.Old))
	paths := make([]string, len(c.Old))
	tree := Tree{}
	for i, o := range c.Old {
		paths[i] = fmt.Sprintf("o%d", i)
		sizes[i] = int64(len(o))
		tree[paths[i]] = &Entry{Kind: KFile, Data: o}
	}
	pool := &Pool{Inner: NewMemPool(paths, sizes, tree), Name: "old", Slice: NewSlicer(1, uint64(len(ops))+uint64(len(c.New)))}
	actx := ctxFor(applyCtxs, c.BS)
	var buf bytes.Buffer
	for i, op := range ops {
		wop := wsync.Operation{Type: wsync.OpBlockRange, FileIndex: op.File, BlockIndex: op.Index, BlockSpan: op.Span}
		if op.Kind == RefData {
			wop = wsync.Operation{Type: wsync.OpData, Data: op.Data}
		}
		var aerr error
		if p := Recover(func() { aerr = actx.ApplySingle(&buf, pool, wop) }); p != "" || aerr != nil {
			return "C11/apply-failed", fmt.Sprintf("ApplySingle op %d: err=%v panic=%s", i, aerr, p)
		}
	}
	if !bytes.Equal(buf.Bytes(), c.New) {
		return "C11/apply-wrong", fmt.Sprintf("ApplySingle reconstruction differs at %d (len %d vs %d)", firstDiff(buf.Bytes(), c.New), buf.Len(), len(c.New))
	}
	return "", ""
}

func opsEqual(a, b []RefOp) bool {
	if len(a) != len(b) {
		return false
	}
	for i := range a {
		if a[i].Kind != b[i].Kind || a[i].File != b[i].File || a[i].Index != b[i].Index || a[i].Span != b[i].Span || !bytes.Equal(a[i].Data, b[i].Data) {
			return false
		}
	}
	return true
}

// errAfterReader fails with a non-EOF error after n bytes.
type errAfterReader struct {
	data []byte
	n    int
	off  int
	err  error // the error to fail with (default ErrInjected)
}

func (r *errAfterReader) Read(p []byte) (int, error) {
	if r.off >= r.n || r.off >= len(r.data) {
		if r.err != nil {
			return 0, r.err
		}
		return 0, ErrInjected
	}
	m := copy(p, r.data[r.off:min(r.n, len(r.data))])
	r.off += m
	return m, nil
}

func runWsyncCase(rt Failer, c *wsyncCase, slicings [][2]uint64) bool {
	if c.AbortFirst > 0 && len(c.New) > 0 {
		// a diff on the same context that dies of a read error part-way (right after some old
		// material, if there is any): whatever it leaves behind must not leak into the next diff
		ctx := ctxFor(diffCtxs, c.BS)
		var sig []wsync.BlockHash
		for i, o := range c.Old {
			ctx.CreateSignature(t0ctx, int64(i), bytes.NewReader(o), func(h wsync.BlockHash) error { sig = append(sig, h); return nil })
		}
		junk := c.New
		if len(c.Old) > 0 && len(c.Old[0]) >= c.BS {
			junk = append(append([]byte{}, c.Old[0][:len(c.Old[0])/c.BS*c.BS]...), c.New...)
		}
		var aerr error
		Recover(func() {
			// (a compressed stream that was cut short fails with io.ErrUnexpectedEOF: that is an error of
			// the source like any other, not the end of the content)
			var ferr error
			if c.AbortFirst%2 == 0 {
				ferr = io.ErrUnexpectedEOF
			}
			aerr = ctx.ComputeDiff(&errAfterReader{data: junk, n: c.AbortFirst, err: ferr}, wsync.NewBlockLibrary(sig), func(op wsync.Operation) error { return nil }, -1)
		})
		Ev.Fault("diff_aborted_by_read_error_before_reuse", 1)
		if aerr == nil {
			// the source never reached its end: the ops emitted so far describe a prefix of unknown
			// content, and the caller is told everything is fine
			return Violation(rt, "C11/read-error-swallowed", "ComputeDiff returned nil although its source failed with a read error after %d bytes (the operations rebuild only a prefix)\ncase %v", c.AbortFirst, c.sample())
		}
	}
	var first []RefOp
	for si, sl := range slicings {
		r := NewSliceReader(c.New, int(sl[0]), sl[1], sl[1]%3 == 0, sl[1]%2 == 0)
		ops, err, p := collectOps(c, r)
		Ev.Fault("short_read_new_content", r.Slice.Cuts)
		if p != "" {
			return Violation(rt, "C11/differ-panic", "ComputeDiff panicked: %s\ncase %v", p, c.sample())
		}
		if err != nil {
			return Violation(rt, "C11/differ-error", "ComputeDiff returned %v\ncase %v", err, c.sample())
		}
		if class, msg := checkOps(c, ops); class != "" {
			return Violation(rt, class, "%s\ncase %v slicing %v", msg, c.sample(), sl)
		}
		if si == 0 {
			first = ops
		} else if !opsEqual(first, ops) {
			return Violation(rt, "C11/ops-depend-on-slicing", "ops differ between reader slicing %v and %v (%d vs %d ops)\ncase %v", slicings[0], sl, len(first), len(ops), c.sample())
		}
	}
	nr, nd := 0, 0
	for _, op := range first {
		if op.Kind == RefBlockRange {
			nr++
		} else {
			nd++
		}
	}
	Ev.ProbeIf(nr > 0 && nd > 0, "mixed_ranges_and_data")
	Ev.ProbeIf(len(c.New) > maxDataOp+2*c.BS, "buffer_wrap")
	return false
}

// TestC11Enum enumerates a small sub-space completely (independent of the seed).
func TestC11Enum(t *testing.T) {
	Ev.Rule = "rsync differ on tiny block sizes / small alphabets (sub-space enumerated completely: bs 1..3, alphabet {a,b}, one old file len 0..5 or two old files len 0..3, new len 0..7/0..6, every preferred index; remainder sampled) and on 8-9 MiB contents; non-trivial = at least one block of an old file occurs in new; distinct by case hash"
	Ev.Component("wsync.ComputeDiff / CreateSignature / BlockLibrary / ApplySingle", "real")
	Ev.Component("new-content reader (short reads, (0,nil) reads, EOF with/after data), old-file pool", "simulated")
	Ev.Property = "C11"
	ft := &fatalT{t: t}
	strs := func(maxLen int) [][]byte {
		var out [][]byte
		for l := 0; l <= maxLen; l++ {
			for v := 0; v < 1<<l; v++ {
				s := make([]byte, l)
				for i := 0; i < l; i++ {
					s[i] = 'a' + byte((v>>i)&1)
				}
				out = append(out, s)
			}
		}
		return out
	}
	enum := 0
	one, news := strs(5), strs(7)
	for bs := 1; bs <= 3; bs++ {
		for _, o := range one {
			for _, n := range news {
				for pref := int64(-1); pref <= 0; pref++ {
					c := &wsyncCase{BS: bs, Old: [][]byte{o}, New: n, Preferred: pref}
					if runWsyncCase(ft, c, [][2]uint64{{0, 0}, {4, uint64(len(n))}}) {
						return
					}
					enum++
					Ev.Eval(fnv64(o, n, []byte{byte(bs), byte(pref + 1)}), nontrivialCase(c), c.sample)
				}
			}
		}
	}
	two, news2 := strs(3), strs(6)
	for bs := 1; bs <= 3; bs++ {
		for _, o1 := range two {
			for _, o2 := range two {
				for _, n := range news2 {
					for pref := int64(-1); pref <= 1; pref++ {
						c := &wsyncCase{BS: bs, Old: [][]byte{o1, o2}, New: n, Preferred: pref}
						if runWsyncCase(ft, c, [][2]uint64{{0, 0}}) {
							return
						}
						enum++
						Ev.Eval(fnv64(o1, o2, n, []byte{byte(bs), byte(pref + 1), 2}), nontrivialCase(c), nil)
					}
				}
			}
		}
	}
	Ev.Note(fmt.Sprintf("exhaustively enumerated sub-space: %d cases", enum))
	// "for any block size": a few block sizes far beyond the usual 64 KiB, with fresh content long
	// enough to leave more than two maximal data operations unflushed at the end
	for _, bs := range []int{2*MiB + 1, 3 * MiB, 5 * MiB} {
		var lens []int
		for n := 2 * maxDataOp; n <= 3*maxDataOp+2*bs; n += 512*KiB + 1 {
			lens = append(lens, n)
		}
		for _, n := range lens {
			c := &wsyncCase{BS: bs, Old: [][]byte{Bytes(uint64(bs), bs+100)}, New: Bytes(uint64(n), n), Preferred: -1}
			if runWsyncCase(ft, c, [][2]uint64{{0, 0}}) {
				return
			}
			Ev.Eval(fnv64([]byte(fmt.Sprint("hugeblock", bs, n))), false, c.sample)
		}
	}
	Ev.Probe("block_sizes_of_several_MiB")
	// tiny block sizes with content that ends exactly where the differ's internal buffer
	// (2 blocks + one maximal data operation) is full, once and twice over, give or take a byte
	for bs := 1; bs <= 3; bs++ {
		bufLen := 2*bs + maxDataOp
		for k := 1; k <= 2; k++ {
			for d := -1; d <= 1; d++ {
				n := k*bufLen + d
				nw := make([]byte, n)
				for i := range nw {
					nw[i] = 'a'
				}
				c := &wsyncCase{BS: bs, Old: [][]byte{[]byte("b")}, New: nw, Preferred: -1}
				if runWsyncCase(ft, c, [][2]uint64{{0, 0}}) {
					return
				}
				nw2 := Bytes(uint64(n), n)
				c = &wsyncCase{BS: bs, Old: [][]byte{nw2[:bs*3]}, New: nw2, Preferred: 0}
				if runWsyncCase(ft, c, [][2]uint64{{0, 0}}) {
					return
				}
			}
		}
	}
	Ev.Probe("content_ending_exactly_at_the_internal_buffer_size")
}

// TestC11Small lets rapid sample the small space named in the property (bs 1..4, alphabet 2-3,
// one to three old files of length 0..7, new content 0..9, every preferred index).
func TestC11Small(t *testing.T) {
	Ev.Property = "C11"
	Prop(t, "C11", func(rt *rapid.T) {
		bs := rapid.IntRange(1, 4).Draw(rt, "bs")
		alpha := rapid.IntRange(2, 3).Draw(rt, "alphabet")
		nold := rapid.IntRange(1, 3).Draw(rt, "nold")
		gen := func(max int, label string) []byte {
			l := rapid.IntRange(0, max).Draw(rt, label+".len")
			b := make([]byte, l)
			for i := range b {
				b[i] = 'a' + byte(rapid.IntRange(0, alpha-1).Draw(rt, label+".sym"))
			}
			return b
		}
		c := &wsyncCase{BS: bs}
		for i := 0; i < nold; i++ {
			c.Old = append(c.Old, gen(7, "old"))
		}
		c.New = gen(9, "new")
		c.Preferred = int64(rapid.IntRange(-1, nold-1).Draw(rt, "preferred"))
		if rapid.IntRange(0, 3).Draw(rt, "abortfirst") == 0 {
			c.AbortFirst = rapid.IntRange(1, 12).Draw(rt, "abortafter")
		}
		if rapid.IntRange(0, 7).Draw(rt, "applyfirst") == 0 {
			c.ApplyFirst = true
		}
		sl := [][2]uint64{{0, 0}, {uint64(rapid.IntRange(1, 4).Draw(rt, "slmode")), rapid.Uint64().Draw(rt, "slseed")}}
		if runWsyncCase(rt, c, sl) {
			return
		}
		parts := append([][]byte{c.New, {byte(bs), byte(c.Preferred + 1)}}, c.Old...)
		Ev.Eval(fnv64(parts...), nontrivialCase(c), c.sample)
	})
}

func nontrivialCase(c *wsyncCase) bool {
	if len(c.New) < c.BS {
		return false
	}
	for _, o := range c.Old {
		for off := 0; off+c.BS <= len(o); off += c.BS {
			if bytes.Contains(c.New, o[off:off+c.BS]) {
				return true
			}
		}
	}
	return false
}

// TestC11Big: block sizes up to 64 KiB with new content long enough (> 8 MiB) to force data-op
// splitting and buffer wrap-around at every phase relative to block boundaries.
func TestC11Big(t *testing.T) {
	Ev.Property = "C11"
	Prop(t, "C11", func(rt *rapid.T) {
		bs := rapid.SampledFrom([]int{16, 4 * KiB, 64 * KiB, 64 * KiB, 1000, 65537, 16385, 3 * MiB}).Draw(rt, "bs")
		nold := rapid.IntRange(1, 3).Draw(rt, "nold")
		c := &wsyncCase{BS: bs, ApplyFirst: rapid.IntRange(0, 3).Draw(rt, "applyfirst") == 0}
		for i := 0; i < nold; i++ {
			sz := rapid.SampledFrom([]int{0, bs - 1, bs, bs + 1, 3 * bs, 3*bs + 7, 200 * KiB, 10*bs + bs/2}).Draw(rt, "oldsize")
			if sz < 0 {
				sz = 0
			}
			if sz > 600*KiB {
				sz = 600 * KiB
			}
			c.Old = append(c.Old, Bytes(rapid.Uint64().Draw(rt, "oldseed"), sz))
		}
		// new content: segments of fresh data and of old-file material; fresh runs sized around the
		// 4 MiB limit so that splitting / wrap happen at every phase relative to block boundaries
		target := rapid.SampledFrom([]int{0, 1, bs, 4*MiB - 1, 4 * MiB, 4*MiB + 1, 4*MiB + 1000, 4*MiB + bs, 4*MiB + 2*bs - 1, 4*MiB + 2*bs, 4*MiB + 2*bs + 1, 8 * MiB, 8*MiB + 3*bs + 5, 9 * MiB}).Draw(rt, "target") + rapid.IntRange(0, 2).Draw(rt, "targetk")*rapid.IntRange(0, bs).Draw(rt, "targetphase")
		withMatches := rapid.Bool().Draw(rt, "withmatches")
		var nw []byte
		seg := 0
		for len(nw) < target {
			seg++
			if withMatches && seg%2 == 0 && len(c.Old) > 0 {
				o := c.Old[rapid.IntRange(0, len(c.Old)-1).Draw(rt, "segold")]
				if len(o) > 0 {
					a := rapid.IntRange(0, len(o)-1).Draw(rt, "sega")
					if rapid.Bool().Draw(rt, "segaligned") {
						a -= a % bs
					}
					b := a + rapid.IntRange(1, len(o)-a).Draw(rt, "segl")
					nw = append(nw, o[a:b]...)
					continue
				}
			}
			l := rapid.SampledFrom([]int{1, bs - 1, bs, bs + 1, 100 * KiB, 4*MiB - bs, 4*MiB - 1, 4 * MiB, 4*MiB + 1, 4*MiB + bs + 1}).Draw(rt, "freshlen")
			if l < 1 {
				l = 1
			}
			if !withMatches {
				l = target - len(nw)
			}
			if rapid.IntRange(0, 3).Draw(rt, "construn") == 0 {
				// a run of one constant byte (padding): successive windows with equal rolling hashes
				run := make([]byte, l)
				fb := rapid.SampledFrom([]byte{0, 0, 2, 0xAA}).Draw(rt, "constbyte")
				for i := range run {
					run[i] = fb
				}
				nw = append(nw, run...)
				continue
			}
			nw = append(nw, Bytes(rapid.Uint64().Draw(rt, "freshseed"), l)...)
		}
		if !withMatches && len(nw) > target {
			nw = nw[:target]
		}
		if len(nw) > 10*MiB {
			nw = nw[:10*MiB]
		}
		if rapid.IntRange(0, 3).Draw(rt, "unchangedfile") == 0 && bs >= 4*KiB {
			// new content identical to an old file whose block count sits around the point where the
			// differ's window wraps (4 MiB + 2 blocks): matches consume the buffer exactly
			nblocks := 4*MiB/bs + rapid.IntRange(-1, 4).Draw(rt, "wrapblocks")
			tailLen := rapid.SampledFrom([]int{0, 0, 1, bs - 1}).Draw(rt, "wraptail")
			data := Bytes(rapid.Uint64().Draw(rt, "wrapseed"), nblocks*bs+tailLen)
			c.Old = [][]byte{data}
			nw = data
			nold = 1
			Ev.Probe("unchanged_file_around_window_wrap")
		}
		if rapid.IntRange(0, 5).Draw(rt, "matchthentail") == 0 {
			// one or two old blocks right at the start (a block range that is still pending), then
			// nothing but fresh data, a little more than the limit of a data operation
			k := rapid.IntRange(1, 2).Draw(rt, "leadblocks")
			lead := Bytes(rapid.Uint64().Draw(rt, "leadseed"), k*bs)
			c.Old = [][]byte{lead}
			nold = 1
			tail := 4*MiB + rapid.SampledFrom([]int{1, bs / 2, bs - 1, bs, bs + 1}).Draw(rt, "tailover")
			nw = append(append([]byte{}, lead...), Bytes(rapid.Uint64().Draw(rt, "tailseed"), tail)...)
			Ev.Probe("pending_block_range_then_fresh_tail_just_over_the_limit")
		}
		c.New = nw
		c.Preferred = int64(rapid.IntRange(-1, nold-1).Draw(rt, "preferred"))
		sl := [][2]uint64{{0, 0}}
		if bs >= 1000 {
			sl = append(sl, [2]uint64{uint64(rapid.IntRange(1, 3).Draw(rt, "slmode")), rapid.Uint64().Draw(rt, "slseed")})
		}
		if runWsyncCase(rt, c, sl) {
			return
		}
		Ev.ProbeIf(len(c.New) > 8*MiB, "new_over_8MiB")
		parts := append([][]byte{c.New, {byte(c.Preferred + 1)}, []byte(fmt.Sprint(bs))}, c.Old...)
		Ev.Eval(fnv64(parts...), len(c.New) > maxDataOp, func() interface{} {
			m := c.sample().(map[string]interface{})
			m["with_matches"] = withMatches
			return m
		})
	})
}
