package sim

import (
	"fmt"
	"path"
	"sort"
	"strings"

	"pgregory.net/rapid"
)

const (
	KiB = 1024
	MiB = 1024 * 1024
	// BlockSize is the 64 KiB block size stated in the properties (C04). It is written here from
	// the property text, not imported from wharf, so that a changed constant is detected.
	BlockSize = 64 * KiB
)

// GenOpts tunes the tree / build-pair generators.
type GenOpts struct {
	MaxFiles        int  // default 6
	Big             bool // allow files around and above the 4 MiB data-op limit (rare draw)
	BigAlways       bool // force at least one big file
	MaxMid          int  // cap for "mid" random sizes (default 300 KiB)
	Links           bool
	EmptyDirs       bool
	KindChange      bool // symlink<->file/dir kind changes
	DirFile         bool // dir<->file kind changes in place (known-defect territory for in-place commit)
	LowEntropy      bool // allow low-entropy contents
	NoEdits         bool // C08-style: only renames/dups/localized edits
	TinyBias        bool // favour sizes 0..16 (C07)
	HighEntropyOnly bool // every content is a high-entropy stream (C08)
	MidBias         bool // favour files of several blocks and edited files (series with many messages)
}

var dirPool = []string{"", "", "a", "a/b", "c", "a/b/d", "e", "..cache", "50% off"}
var namePool = []string{"f0", "f1", "f2", "f3", "f4", "f5", "f6", "f7", "x", "x.dat", "lib.so", "data.bin", "F0", "X", "Data.bin",
	// a name close to the 255-byte limit of a path component, and names that look like the temporary
	// names an implementation might derive from other names
	longName, "f1.butler-rename-1", ".butler-rename-1", ".butler-rename-2",
	// names that sort between a directory of the pool and its content when compared as strings
	// ("a.pak" < "a/f0"), but after it in walk order
	"a.pak", "a b", "c-1", "e.d",
	// names that begin like the parent directory does, or are made of dots (legal: neither "." nor "..")
	"..data", "...", ".x",
	// names that are not well-formed URLs or would be read as one (a stray percent sign, a scheme)
	"100% x.bin", "save-50%.dat", "a:b", "q?x#y"}

var longName = "L" + strings.Repeat("o", 243) + "g"

func joinPath(d, n string) string {
	if d == "" {
		return n
	}
	return d + "/" + n
}

var edgeSizes = []int{
	0, 0, 1, 2, 3, 16, 100, 2048, 2049, 4095, 4096, 8 * KiB, 8*KiB + 1, 32*KiB - 1, 32 * KiB, 32*KiB + 1,
	BlockSize - 1, BlockSize, BlockSize + 1, 2*BlockSize - 1, 2 * BlockSize, 2*BlockSize + 1,
	3 * BlockSize, 3*BlockSize + 17, 128*KiB + 100,
}

var bigSizes = []int{
	4*MiB - BlockSize, 4*MiB - 1, 4 * MiB, 4*MiB + 1, 4*MiB + 1000, 4*MiB + BlockSize, 4*MiB + BlockSize + 1,
	4*MiB + 2*BlockSize - 1, 4*MiB + 2*BlockSize, 4*MiB + 2*BlockSize + 1, 4*MiB + 3*BlockSize + 5, 8*MiB + 77,
	8*MiB + 2*BlockSize + 3,
}

func genSize(rt *rapid.T, o GenOpts, label string) int {
	maxMid := o.MaxMid
	if maxMid == 0 {
		maxMid = 300 * KiB
	}
	c := rapid.IntRange(0, 19).Draw(rt, label+".sizeclass")
	if o.MidBias && c < 12 {
		return rapid.IntRange(BlockSize, maxMid).Draw(rt, label+".midbias")
	}
	if o.TinyBias && c < 10 {
		return rapid.IntRange(0, 16).Draw(rt, label+".tiny")
	}
	switch {
	case c < 9:
		return rapid.SampledFrom(edgeSizes).Draw(rt, label+".edge")
	case c < 13:
		return rapid.IntRange(0, 1000).Draw(rt, label+".small")
	case c < 19:
		return rapid.IntRange(0, maxMid).Draw(rt, label+".mid")
	default:
		if o.Big {
			return rapid.SampledFrom(bigSizes).Draw(rt, label+".big") + rapid.IntRange(0, 3).Draw(rt, label+".bigk")
		}
		return rapid.IntRange(0, maxMid).Draw(rt, label+".mid2")
	}
}

// poolBlock returns shared 64 KiB block number id of the scenario's block pool.
func poolBlock(poolSeed uint64, id int) []byte {
	return Bytes(poolSeed*1000003+uint64(id)+7, BlockSize)
}

// genContent draws file content of the given size: high-entropy, assembled from the shared block
// pool (so files share / repeat blocks), or low-entropy.
func genContent(rt *rapid.T, o GenOpts, size int, poolSeed uint64, label string) []byte {
	if size == 0 {
		return []byte{}
	}
	if o.HighEntropyOnly {
		if size >= BlockSize && rapid.IntRange(0, 5).Draw(rt, label+".neutral") == 0 {
			// still high-entropy, but with block boundaries at which the rolling checksum stands still
			return NeutralBlocks(rapid.Uint64().Draw(rt, label+".nseed"), size, BlockSize, byte(rapid.SampledFrom([]int{0x5a, 0, 0xff}).Draw(rt, label+".nbyte")))
		}
		return Bytes(rapid.Uint64().Draw(rt, label+".cseed"), size)
	}
	kind := rapid.IntRange(0, 11).Draw(rt, label+".ckind")
	switch {
	case kind == 11:
		// high-entropy blocks arranged so that the rolling checksum does not move when a window
		// slides onto a block boundary (see NeutralBlocks)
		return NeutralBlocks(rapid.Uint64().Draw(rt, label+".nseed"), size, BlockSize, byte(rapid.SampledFrom([]int{0x5a, 0, 0xff}).Draw(rt, label+".nbyte")))
	case kind == 10:
		// runs of a constant byte (padding, tables): weak hashes with special values (0 for an even
		// fill byte over a full block), windows that do not change while rolling
		out := make([]byte, size)
		pos := 0
		for pos < size {
			b := rapid.SampledFrom([]byte{0, 2, 6, 0xAA, 0xFF, 0x80}).Draw(rt, label+".fill")
			l := rapid.SampledFrom([]int{1, 100, BlockSize - 1, BlockSize, BlockSize + 1, 3 * BlockSize, size}).Draw(rt, label+".filllen")
			for k := 0; k < l && pos < size; k++ {
				out[pos] = b
				pos++
			}
		}
		return out
	case kind < 5:
		return Bytes(rapid.Uint64().Draw(rt, label+".cseed"), size)
	case kind < 8:
		var out []byte
		for len(out) < size {
			id := rapid.IntRange(0, 5).Draw(rt, label+".blk")
			out = append(out, poolBlock(poolSeed, id)...)
		}
		return out[:size]
	default:
		if o.LowEntropy {
			return LowEntropy(rapid.Uint64().Draw(rt, label+".lseed"), size, rapid.IntRange(1, 4).Draw(rt, label+".alpha"))
		}
		return Bytes(rapid.Uint64().Draw(rt, label+".cseed2"), size)
	}
}

// GenTree draws a directory tree.
func GenTree(rt *rapid.T, o GenOpts, poolSeed uint64) Tree {
	if o.MaxFiles == 0 {
		o.MaxFiles = 6
	}
	t := Tree{}
	n := rapid.IntRange(0, o.MaxFiles).Draw(rt, "nfiles")
	bigLeft := 1
	for i := 0; i < n; i++ {
		p := joinPath(rapid.SampledFrom(dirPool).Draw(rt, "dir"), rapid.SampledFrom(namePool).Draw(rt, "name"))
		if _, ok := t[p]; ok {
			continue
		}
		oo := o
		if bigLeft == 0 {
			oo.Big = false
		}
		size := genSize(rt, oo, "file")
		if o.BigAlways && i == 0 {
			size = rapid.SampledFrom(bigSizes).Draw(rt, "forcedbig")
		}
		if size >= 4*MiB-BlockSize {
			bigLeft--
		}
		t[p] = &Entry{Kind: KFile, Data: genContent(rt, o, size, poolSeed, "file"), Exec: rapid.IntRange(0, 5).Draw(rt, "exec") == 0}
	}
	if o.Links {
		nl := rapid.IntRange(0, 2).Draw(rt, "nlinks")
		for i := 0; i < nl; i++ {
			p := joinPath(rapid.SampledFrom(dirPool).Draw(rt, "ldir"), fmt.Sprintf("link%d", rapid.IntRange(0, 2).Draw(rt, "lname")))
			if _, ok := t[p]; ok {
				continue
			}
			t[p] = &Entry{Kind: KLink, Dest: genLinkDest(rt, t)}
		}
	}
	if o.EmptyDirs {
		nd := rapid.IntRange(0, 2).Draw(rt, "nemptydirs")
		for i := 0; i < nd; i++ {
			p := joinPath(rapid.SampledFrom(dirPool).Draw(rt, "edir"), fmt.Sprintf("empty%d", rapid.IntRange(0, 2).Draw(rt, "ename")))
			if _, ok := t[p]; ok {
				continue
			}
			t[p] = &Entry{Kind: KDir}
		}
	}
	return t.Normalize()
}

func genLinkDest(rt *rapid.T, t Tree) string {
	d := genCleanLinkDest(rt, t)
	// a destination is an arbitrary string: it need not be in the form a path cleaner produces
	switch rapid.IntRange(0, 9).Draw(rt, "ldestspelling") {
	case 0:
		return "./" + d
	case 1:
		return d + "/"
	case 2:
		return strings.Replace(d, "/", "//", 1) + "/."
	case 3:
		return "x/../" + d
	}
	return d
}

func genCleanLinkDest(rt *rapid.T, t Tree) string {
	c := rapid.IntRange(0, 3).Draw(rt, "ldestkind")
	files := t.Files()
	switch {
	case c == 0 || len(files) == 0:
		return rapid.SampledFrom([]string{"nowhere", "../dangling", "a/missing", "f0"}).Draw(rt, "ldangle")
	case c == 1:
		return path.Base(rapid.SampledFrom(files).Draw(rt, "ldestfile"))
	case c == 2:
		return rapid.SampledFrom([]string{"a", "a/b", "c", "."}).Draw(rt, "ldestdir")
	default:
		return rapid.SampledFrom(files).Draw(rt, "ldestfile2")
	}
}

// FileMeta says how a file of the new build relates to the old build (used by C08 and for
// non-triviality rules).
type FileMeta struct {
	From       string // old path the content derives from ("" = brand new)
	Edits      int    // number of localized edits applied
	Introduced int    // bytes introduced by those edits
	Identical  bool   // content identical to From
	Op         string
}

// Pair is a generated (old build, new build) scenario.
type Pair struct {
	Old, New   Tree
	Meta       map[string]FileMeta // by new path
	Ops        []string
	KindChange bool     // a symlink<->file/dir change is present
	DirFile    []string // paths that are a dir in one build and a non-dir in the other
	PoolSeed   uint64
}

func editOffsets(rt *rapid.T, n int, label string) int {
	if n == 0 {
		return 0
	}
	c := rapid.IntRange(0, 5).Draw(rt, label+".offclass")
	switch c {
	case 0:
		return 0
	case 1:
		return n - 1
	case 2:
		// a block edge
		nb := n / BlockSize
		if nb == 0 {
			return rapid.IntRange(0, n-1).Draw(rt, label+".off")
		}
		e := rapid.IntRange(1, nb).Draw(rt, label+".edge")*BlockSize + rapid.IntRange(-1, 1).Draw(rt, label+".edged")
		if e >= n {
			e = n - 1
		}
		if e < 0 {
			e = 0
		}
		return e
	default:
		return rapid.IntRange(0, n-1).Draw(rt, label+".off")
	}
}

var editLens = []int{1, 1, 2, 10, 100, 1000, 2049, 5000, BlockSize - 1, BlockSize, BlockSize + 1, 100 * KiB}

// applyEdits applies k localized edits and returns the new content and the bytes introduced.
func applyEdits(rt *rapid.T, data []byte, k int, label string) ([]byte, int, []string) {
	out := append([]byte{}, data...)
	intro := 0
	var desc []string
	for i := 0; i < k; i++ {
		l := rapid.SampledFrom(editLens).Draw(rt, label+".elen")
		typ := rapid.IntRange(0, 2).Draw(rt, label+".etype")
		off := editOffsets(rt, len(out)+1, label)
		if off > len(out) {
			off = len(out)
		}
		fresh := Bytes(rapid.Uint64().Draw(rt, label+".eseed"), l)
		if rapid.IntRange(0, 7).Draw(rt, label+".efresh") == 0 {
			// sparse bytes: the byte sum over a block-sized window drifts slowly around a multiple of
			// 65536, so windows whose rolling checksum has special values (unchanged by a one-byte
			// roll, low half zero) occur within any stretch longer than a block
			l = rapid.SampledFrom([]int{BlockSize + 1000, 2*BlockSize + 77, 200 * KiB}).Draw(rt, label+".sparselen")
			fresh = Sparse(rapid.Uint64().Draw(rt, label+".sparseseed"), l, rapid.SampledFrom([]int{2, 16, 128, 255}).Draw(rt, label+".sparseval"))
		}
		switch typ {
		case 0: // overwrite
			end := off + l
			if end > len(out) {
				end = len(out)
			}
			copy(out[off:end], fresh)
			intro += end - off
			desc = append(desc, fmt.Sprintf("overwrite@%d+%d", off, end-off))
		case 1: // insert
			out = append(out[:off], append(fresh, out[off:]...)...)
			intro += l
			desc = append(desc, fmt.Sprintf("insert@%d+%d", off, l))
		case 2: // delete
			end := off + l
			if end > len(out) {
				end = len(out)
			}
			out = append(out[:off], out[end:]...)
			desc = append(desc, fmt.Sprintf("delete@%d+%d", off, end-off))
		}
	}
	return out, intro, desc
}

// GenPair draws an old build and a new build derived from it by an edit script.
func GenPair(rt *rapid.T, o GenOpts) *Pair {
	poolSeed := rapid.Uint64Range(0, 1<<20).Draw(rt, "poolseed")
	old := GenTree(rt, o, poolSeed)
	p := &Pair{Old: old, New: Tree{}, Meta: map[string]FileMeta{}, PoolSeed: poolSeed}
	nw := p.New

	oldFiles := old.Files()
	// candidate destination paths: every old file path plus fresh ones
	freshPath := func(label string) string {
		return joinPath(rapid.SampledFrom(dirPool).Draw(rt, label+".dir"), rapid.SampledFrom(namePool).Draw(rt, label+".name")+rapid.SampledFrom([]string{"", "", ".new", "2"}).Draw(rt, label+".suffix"))
	}
	place := func(pth string, data []byte, exec bool, m FileMeta) bool {
		if _, taken := nw[pth]; taken {
			return false
		}
		// a file path must not be a directory of the new tree nor live under a file
		for q, e := range nw {
			if e.Kind != KDir && Under(pth, q) {
				return false
			}
			if Under(q, pth) {
				return false
			}
		}
		if e, ok := old[pth]; ok && e.Kind == KDir {
			// would be a dir->file kind change; only through the explicit op below
			return false
		}
		nw[pth] = &Entry{Kind: KFile, Data: data, Exec: exec}
		p.Meta[pth] = m
		return true
	}

	for _, op := range oldFiles {
		e := old[op]
		label := "f"
		act := rapid.IntRange(0, 19).Draw(rt, label+".op")
		if o.MidBias && act < 3 && rapid.Bool().Draw(rt, label+".forceedit") {
			act = 3
		}
		if o.NoEdits {
			act = rapid.SampledFrom([]int{0, 0, 1, 1, 4, 5, 6, 12}).Draw(rt, label+".op8")
		}
		dest := op
		data := e.Data
		m := FileMeta{From: op, Identical: true, Op: "keep"}
		switch act {
		case 0, 1, 2: // keep
		case 3, 4: // localized edits
			k := rapid.IntRange(1, 4).Draw(rt, label+".k")
			var d []string
			data, m.Introduced, d = applyEdits(rt, e.Data, k, label)
			m.Edits, m.Identical, m.Op = k, false, fmt.Sprintf("edit%v", d)
		case 5: // rename to a fresh path
			dest = freshPath(label)
			m.Op = "rename"
		case 6: // move onto another old file's path (swap / chain)
			if len(oldFiles) > 1 {
				dest = rapid.SampledFrom(oldFiles).Draw(rt, label+".onto")
				m.Op = "move-onto"
			}
		case 7: // delete
			p.Ops = append(p.Ops, "delete "+op)
			continue
		case 8: // becomes empty
			data, m = []byte{}, FileMeta{From: op, Op: "empty"}
		case 9: // truncate
			if len(e.Data) > 0 {
				cut := editOffsets(rt, len(e.Data), label+".cut")
				data, m = e.Data[:cut], FileMeta{From: op, Op: fmt.Sprintf("truncate@%d", cut)}
			}
		case 10: // append
			l := rapid.SampledFrom(editLens).Draw(rt, label+".alen")
			data = append(append([]byte{}, e.Data...), Bytes(rapid.Uint64().Draw(rt, label+".aseed"), l)...)
			m = FileMeta{From: op, Edits: 1, Introduced: l, Op: fmt.Sprintf("append+%d", l)}
		case 11: // edit and rename
			k := rapid.IntRange(1, 2).Draw(rt, label+".k2")
			var d []string
			data, m.Introduced, d = applyEdits(rt, e.Data, k, label)
			dest = freshPath(label)
			m.Edits, m.Identical, m.Op = k, false, fmt.Sprintf("edit+rename%v", d)
		case 12: // duplicate (keep the original too)
			dup := freshPath(label + ".dup")
			if place(dup, e.Data, e.Exec, FileMeta{From: op, Identical: true, Op: "dup"}) {
				p.Ops = append(p.Ops, fmt.Sprintf("dup %s -> %s", op, dup))
			}
			if rapid.Bool().Draw(rt, label+".dup2") {
				dup2 := freshPath(label + ".dup2")
				if place(dup2, e.Data, e.Exec, FileMeta{From: op, Identical: true, Op: "dup"}) {
					p.Ops = append(p.Ops, fmt.Sprintf("dup %s -> %s", op, dup2))
				}
			}
			if rapid.IntRange(0, 2).Draw(rt, label+".dropsrc") == 0 {
				p.Ops = append(p.Ops, "delete(dup source) "+op)
				continue
			}
		case 13: // block-aligned prefix / suffix of this file as a new file, original kept
			nb := len(e.Data) / BlockSize
			if nb >= 1 {
				b := rapid.IntRange(1, nb).Draw(rt, label+".pblocks")
				var part []byte
				if rapid.Bool().Draw(rt, label+".suffix") {
					part = e.Data[len(e.Data)-len(e.Data)%BlockSize-b*BlockSize:]
					if len(e.Data)%BlockSize == 0 {
						part = e.Data[len(e.Data)-b*BlockSize:]
					}
				} else {
					part = e.Data[:b*BlockSize]
				}
				np := freshPath(label + ".part")
				if place(np, append([]byte{}, part...), false, FileMeta{From: op, Op: "blockpart"}) {
					p.Ops = append(p.Ops, fmt.Sprintf("blockpart %s -> %s (%d B)", op, np, len(part)))
				}
			}
		case 14: // patched and also the source of a rename: original edited in place, copy of the old content elsewhere
			cp := freshPath(label + ".cp")
			if place(cp, e.Data, e.Exec, FileMeta{From: op, Identical: true, Op: "copy-of-patched"}) {
				p.Ops = append(p.Ops, fmt.Sprintf("copy %s -> %s", op, cp))
			}
			if rapid.Bool().Draw(rt, label+".cp2") {
				cp2 := freshPath(label + ".cp2")
				if place(cp2, e.Data, e.Exec, FileMeta{From: op, Identical: true, Op: "copy-of-patched"}) {
					p.Ops = append(p.Ops, fmt.Sprintf("copy %s -> %s", op, cp2))
				}
			}
			var d []string
			data, m.Introduced, d = applyEdits(rt, e.Data, 1, label)
			m.Edits, m.Identical, m.Op = 1, false, fmt.Sprintf("edit(src of copy)%v", d)
		case 16: // a new file spliced from equal numbers of blocks of this file and of another old file
			// (several equally good bsdiff candidates), original kept
			var others []string
			for _, q := range oldFiles {
				if q != op && len(old[q].Data) >= 2*BlockSize {
					others = append(others, q)
				}
			}
			if len(e.Data) >= 2*BlockSize && len(others) > 0 {
				y := old[rapid.SampledFrom(others).Draw(rt, label+".spliceother")].Data
				kb := rapid.IntRange(1, min(len(e.Data), len(y))/BlockSize-1).Draw(rt, label+".spliceblocks")
				sp := append(append(append([]byte{}, e.Data[:kb*BlockSize]...), Bytes(rapid.Uint64().Draw(rt, label+".spliceseed"), 100)...), y[:kb*BlockSize]...)
				if rapid.Bool().Draw(rt, label+".splicerev") {
					sp = append(append(append([]byte{}, y[:kb*BlockSize]...), Bytes(7, 100)...), e.Data[:kb*BlockSize]...)
				}
				np := freshPath(label + ".splice")
				if place(np, sp, false, FileMeta{From: op, Op: "splice"}) {
					p.Ops = append(p.Ops, fmt.Sprintf("splice %s + other -> %s (%d B)", op, np, len(sp)))
				}
			}
		case 19: // a near-duplicate next to the original: same size, rsync weak checksum of the touched block preserved
			if nd, ok := WeakCollide(e.Data, editOffsets(rt, len(e.Data), label+".wc")); ok {
				np := freshPath(label + ".wc")
				if place(np, nd, false, FileMeta{From: op, Edits: 1, Introduced: 3, Op: "weak-collide-copy"}) {
					p.Ops = append(p.Ops, fmt.Sprintf("near-duplicate(+1,-2,+1) %s -> %s", op, np))
				}
			}
		case 17: // split at a block boundary into two new files (original dropped or kept)
			if nb := len(e.Data) / BlockSize; nb >= 2 {
				cut := rapid.IntRange(1, nb-1).Draw(rt, label+".splitat") * BlockSize
				pa, pb := freshPath(label+".splita"), freshPath(label+".splitb")
				around := rapid.IntRange(0, 2).Draw(rt, label+".splitaround") == 0
				if around {
					// head sorts right before the (kept) original, tail right after it: the patch then
					// reads old blocks 0..k, copies the whole old file, and goes on reading at block k
					d, b := "", op
					if i := strings.LastIndex(op, "/"); i >= 0 {
						d, b = op[:i+1], op[i+1:]
					}
					pa, pb = d+"!"+b, d+b+"~"
				}
				if place(pa, append([]byte{}, e.Data[:cut]...), false, FileMeta{From: op, Op: "split-head"}) {
					p.Ops = append(p.Ops, fmt.Sprintf("split %s[:%d] -> %s", op, cut, pa))
				}
				if place(pb, append([]byte{}, e.Data[cut:]...), false, FileMeta{From: op, Op: "split-tail"}) {
					p.Ops = append(p.Ops, fmt.Sprintf("split %s[%d:] -> %s", op, cut, pb))
				}
				if !around && rapid.Bool().Draw(rt, label+".splitdrop") {
					p.Ops = append(p.Ops, "delete(split source) "+op)
					continue
				}
			}
		case 18: // block-aligned halves swapped (blocks of the old file reused out of order)
			if nb := len(e.Data) / BlockSize; nb >= 2 {
				cut := rapid.IntRange(1, nb-1).Draw(rt, label+".swapat") * BlockSize
				data = append(append([]byte{}, e.Data[cut:]...), e.Data[:cut]...)
				m = FileMeta{From: op, Op: fmt.Sprintf("halves swapped at %d", cut)}
			}
		case 15: // replaced by unrelated content of another size
			size := genSize(rt, o, label+".repl")
			if size > MiB {
				size = MiB
			}
			data = genContent(rt, o, size, poolSeed, label+".repl")
			m = FileMeta{From: "", Op: "replace"}
		}
		if rapid.IntRange(0, 7).Draw(rt, label+".chmod") == 0 {
			// the new build may say otherwise about the executable bit, whatever happens to the content
			e = &Entry{Kind: e.Kind, Data: e.Data, Exec: !e.Exec}
			p.Ops = append(p.Ops, fmt.Sprintf("chmod %s (executable: %v)", op, e.Exec))
		}
		if !place(dest, data, e.Exec, m) {
			// destination taken: fall back to the original path, then to a unique one
			if !place(op, data, e.Exec, m) {
				u := op + ".moved"
				if !place(u, data, e.Exec, m) {
					continue
				}
				dest = u
			} else {
				dest = op
			}
		}
		if dest != op || !m.Identical {
			p.Ops = append(p.Ops, fmt.Sprintf("%s: %s -> %s", m.Op, op, dest))
		}
	}

	// duplicates placed on old paths that the edit script vacated (their old content moved away or
	// was deleted): a kept file A also appears at a path B that held something else
	if !o.NoEdits && len(oldFiles) > 1 {
		for _, vp := range oldFiles {
			if _, taken := nw[vp]; taken {
				continue
			}
			if rapid.IntRange(0, 2).Draw(rt, "duponto") != 0 {
				continue
			}
			srcp := rapid.SampledFrom(oldFiles).Draw(rt, "dupontosrc")
			if srcp == vp {
				continue
			}
			if place(vp, old[srcp].Data, old[srcp].Exec, FileMeta{From: srcp, Identical: true, Op: "dup-onto-vacated"}) {
				p.Ops = append(p.Ops, fmt.Sprintf("dup %s -> vacated %s", srcp, vp))
			}
		}
	}

	// brand-new files
	if !o.NoEdits {
		na := rapid.IntRange(0, 2).Draw(rt, "nadded")
		for i := 0; i < na; i++ {
			pth := freshPath("add")
			oo := o
			oo.Big = false
			size := genSize(rt, oo, "add")
			if place(pth, genContent(rt, o, size, poolSeed, "add"), false, FileMeta{Op: "add"}) {
				p.Ops = append(p.Ops, fmt.Sprintf("add %s (%d B)", pth, size))
			}
		}
	}

	// symlinks and empty dirs: keep / drop / retarget / add
	for _, q := range old.Paths() {
		e := old[q]
		switch e.Kind {
		case KLink:
			if _, taken := nw[q]; taken {
				continue
			}
			switch rapid.IntRange(0, 5).Draw(rt, "linkop") {
			case 0:
				p.Ops = append(p.Ops, "remove link "+q)
			case 1:
				nw[q] = &Entry{Kind: KLink, Dest: genLinkDest(rt, nw)}
				if rapid.IntRange(0, 2).Draw(rt, "respell") == 0 {
					// same place, other spelling: still another destination string
					nw[q].Dest = rapid.SampledFrom([]string{"./" + e.Dest, e.Dest + "/", "x/../" + e.Dest, path.Clean(e.Dest)}).Draw(rt, "respelling")
				}
				p.Ops = append(p.Ops, "retarget link "+q)
			case 2:
				if o.KindChange {
					// symlink becomes a regular file or a directory
					if rapid.Bool().Draw(rt, "linktofile") {
						if place(q, Bytes(rapid.Uint64().Draw(rt, "l2fseed"), rapid.IntRange(0, 2000).Draw(rt, "l2fsize")), false, FileMeta{Op: "link->file"}) {
							p.KindChange = true
							p.Ops = append(p.Ops, "link->file "+q)
						}
					} else {
						nw[q] = &Entry{Kind: KDir}
						p.KindChange = true
						p.Ops = append(p.Ops, "link->dir "+q)
					}
				} else {
					nw[q] = &Entry{Kind: KLink, Dest: e.Dest}
				}
			default:
				nw[q] = &Entry{Kind: KLink, Dest: e.Dest}
			}
		case KDir:
			// explicit (possibly empty) directories survive most of the time
			hasChild := false
			for r := range old {
				if Under(r, q) {
					hasChild = true
					break
				}
			}
			if !hasChild {
				if _, taken := nw[q]; !taken && rapid.IntRange(0, 3).Draw(rt, "keepemptydir") != 0 {
					ok := true
					for r, e2 := range nw {
						if e2.Kind != KDir && (Under(q, r) || r == q) {
							ok = false
						}
					}
					if ok {
						nw[q] = &Entry{Kind: KDir}
					}
				}
			}
		}
	}
	if o.Links && rapid.IntRange(0, 3).Draw(rt, "addlink") == 0 {
		q := joinPath(rapid.SampledFrom(dirPool).Draw(rt, "nldir"), "newlink")
		if _, taken := nw[q]; !taken {
			blocked := false
			for r, e2 := range nw {
				if e2.Kind != KDir && Under(q, r) {
					blocked = true
				}
			}
			if !blocked {
				nw[q] = &Entry{Kind: KLink, Dest: genLinkDest(rt, nw)}
				p.Ops = append(p.Ops, "add link "+q)
			}
		}
	}
	if o.KindChange && rapid.IntRange(0, 5).Draw(rt, "file2link") == 0 {
		// an old file path becomes a symlink
		fs := old.Files()
		if len(fs) > 0 {
			q := rapid.SampledFrom(fs).Draw(rt, "f2lpath")
			if e, ok := nw[q]; ok && e.Kind == KFile {
				delete(nw, q)
				delete(p.Meta, q)
			}
			if _, ok := nw[q]; !ok {
				nw[q] = &Entry{Kind: KLink, Dest: genLinkDest(rt, nw)}
				p.KindChange = true
				p.Ops = append(p.Ops, "file->link "+q)
			}
		}
	}
	if o.EmptyDirs && rapid.IntRange(0, 3).Draw(rt, "addemptydir") == 0 {
		q := joinPath(rapid.SampledFrom(dirPool).Draw(rt, "nddir"), "newempty")
		if _, taken := nw[q]; !taken {
			blocked := false
			for r, e2 := range nw {
				if e2.Kind != KDir && Under(q, r) {
					blocked = true
				}
			}
			if !blocked {
				nw[q] = &Entry{Kind: KDir}
				p.Ops = append(p.Ops, "add empty dir "+q)
			}
		}
	}

	if o.DirFile && rapid.IntRange(0, 24).Draw(rt, "dirfile") == 0 {
		// dir <-> file in place
		if rapid.Bool().Draw(rt, "dir2file") {
			var dirs []string
			for _, q := range old.Paths() {
				if old[q].Kind == KDir {
					dirs = append(dirs, q)
				}
			}
			if len(dirs) > 0 {
				d := rapid.SampledFrom(dirs).Draw(rt, "d2fpath")
				nw.RemoveSubtree(d)
				for q := range p.Meta {
					if q == d || Under(q, d) {
						delete(p.Meta, q)
					}
				}
				nw[d] = &Entry{Kind: KFile, Data: Bytes(rapid.Uint64().Draw(rt, "d2fseed"), rapid.IntRange(0, 3000).Draw(rt, "d2fsize"))}
				p.Meta[d] = FileMeta{Op: "dir->file"}
				p.DirFile = append(p.DirFile, d)
				p.Ops = append(p.Ops, "dir->file "+d)
			}
		} else {
			fs := old.Files()
			if len(fs) > 0 {
				f := rapid.SampledFrom(fs).Draw(rt, "f2dpath")
				if e, ok := nw[f]; !ok || e.Kind == KFile {
					delete(nw, f)
					delete(p.Meta, f)
					nw[f] = &Entry{Kind: KDir}
					child := f + "/inner"
					inside := old[f].Data
					if rapid.Bool().Draw(rt, "f2dfresh") {
						inside = Bytes(rapid.Uint64().Draw(rt, "f2dseed"), 1500)
						p.Meta[child] = FileMeta{Op: "add"}
					} else {
						p.Meta[child] = FileMeta{From: f, Identical: true, Op: "moved-into-own-dir"}
					}
					nw[child] = &Entry{Kind: KFile, Data: inside}
					p.DirFile = append(p.DirFile, f)
					p.Ops = append(p.Ops, "file->dir "+f)
				}
			}
		}
	}

	nw.Normalize()
	// record implicit dir<->file changes (none should arise apart from the explicit op)
	for q, e := range nw {
		if oe, ok := old[q]; ok && (oe.Kind == KDir) != (e.Kind == KDir) {
			found := false
			for _, d := range p.DirFile {
				if d == q {
					found = true
				}
			}
			if !found {
				if oe.Kind == KLink || e.Kind == KLink {
					p.KindChange = true
				} else {
					p.DirFile = append(p.DirFile, q)
				}
			}
		}
	}
	sort.Strings(p.DirFile)
	return p
}

// Hash identifies the scenario for distinctness counting.
func (p *Pair) Hash() uint64 {
	return p.Old.Hash()*31 + p.New.Hash()
}

// Sample renders the pair for evidence / reports.
func (p *Pair) Sample() map[string]interface{} {
	return map[string]interface{}{
		"old": p.Old.Describe(),
		"new": p.New.Describe(),
		"ops": p.Ops,
	}
}

// Nontrivial: the pair has at least one file in the new build and old != new or it exercises a
// reuse path.
func (p *Pair) Nontrivial() bool {
	return len(p.New.Files()) > 0 && len(p.Old) > 0
}

// InPlaceShapes reports which shapes of the two known in-place commit findings the pair contains:
//
//	"C02/dir-to-file-commit": a path is a directory in old and a file/symlink in new
//	"C02/kindchange-destroys-transposition-source": a path P is a regular file in old and a
//	    directory or symlink in new while P's unchanged content is reused whole at another new path
//
// involved lists the paths whose mention in an error or diff attributes a failure to the shape.
func (p *Pair) InPlaceShapes() (classes map[string][]string) {
	classes = map[string][]string{}
	for q, e := range p.New {
		oe, ok := p.Old[q]
		if !ok {
			continue
		}
		if oe.Kind == KDir && e.Kind != KDir {
			classes["C02/dir-to-file-commit"] = append(classes["C02/dir-to-file-commit"], q)
		}
		if oe.Kind == KFile && e.Kind != KFile {
			for r, ne := range p.New {
				// decided by content, not by the edit script: shrinking makes unrelated files equal
				if ne.Kind == KFile && r != q && len(oe.Data) > 0 && string(ne.Data) == string(oe.Data) {
					classes["C02/kindchange-destroys-transposition-source"] = append(classes["C02/kindchange-destroys-transposition-source"], q, r)
				}
			}
		}
	}
	return
}

// HasKnownInPlaceShape is used by checks of other properties to keep C02's known findings out of
// their verdicts. Only classes listed as "known" (unrepaired) in the findings file count: both
// kind-change findings are repaired, so this is false everywhere on the repaired tree.
func (p *Pair) HasKnownInPlaceShape() bool {
	for c := range p.InPlaceShapes() {
		if IsKnown(c) {
			return true
		}
	}
	return false
}
