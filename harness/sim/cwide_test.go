package sim

import (
	"fmt"
	"os"
	"path/filepath"
	"strings"
	"testing"

	"github.com/itchio/lake"
	"github.com/itchio/lake/tlc"
	"github.com/itchio/savior"
	"github.com/itchio/savior/seeksource"
	"github.com/itchio/wharf/pwr"
)

// TestC01Wide: a build whose container alone is larger than any other message of a patch (thousands
// of files below a directory chain several kilobytes deep): diff, apply, compare.
func TestC01Wide(t *testing.T) {
	Ev.Property = "C01"
	ft := &fatalT{t: t}
	var deep []string
	for i := 0; i < 14; i++ {
		deep = append(deep, strings.Repeat(string(rune('a'+i)), 250))
	}
	base := strings.Join(deep, "/")
	old, nw := Tree{}, Tree{}
	for i := 0; i < 5300; i++ {
		p := fmt.Sprintf("%s/e%05d", base, i)
		old[p] = &Entry{Kind: KFile, Data: []byte{}}
		if i%7 != 3 {
			nw[p] = old[p]
		}
	}
	old["data.bin"] = &Entry{Kind: KFile, Data: Bytes(1, 200*KiB)}
	nw["data.bin"] = &Entry{Kind: KFile, Data: append(Bytes(2, 100), Bytes(1, 200*KiB)...)}
	nw[base+"/new.bin"] = &Entry{Kind: KFile, Data: Bytes(3, 70000)}
	old.Normalize()
	nw.Normalize()
	dir, cleanup := RunDir()
	defer cleanup()
	oldDir, newDir, outDir := filepath.Join(dir, "old"), filepath.Join(dir, "new"), filepath.Join(dir, "out")
	Must(old.Materialize(oldDir), "old")
	Must(nw.Materialize(newDir), "new")
	for _, comp := range []*pwr.CompressionSettings{{Algorithm: pwr.CompressionAlgorithm_NONE}, {Algorithm: pwr.CompressionAlgorithm_BROTLI, Quality: 1}} {
		dr := Diff(oldDir, newDir, comp, DiffSeams{})
		if dr.Err != nil || dr.Panic != "" {
			Violation(ft, "C01/diff-failed", "WritePatch over a build with a %d-byte path prefix and 5300 files failed: %v %s", len(base), dr.Err, dr.Panic)
			return
		}
		out := outDir + CompString(comp)
		ar := ApplyFresh(dr.Patch, oldDir, out, ApplyOpts{})
		if ar.Err != nil || ar.Panic != "" {
			Violation(ft, "C01/apply-failed", "applying the patch of a build whose container message is about %d MiB failed at %s: %v %s (%s)", 5300*len(base)/MiB, ar.Stage, ar.Err, ar.Panic, CompString(comp))
			return
		}
		if d := nw.Diff(MustSnapshot(out).Tree); d != "" {
			Violation(ft, "C01/wrong-output", "wide build: fresh apply differs from new build: %s", d)
			return
		}
		Ev.Eval(fnv64([]byte(CompString(comp)), []byte("wide")), true, func() interface{} {
			return map[string]interface{}{"files": len(nw.Files()), "path_prefix_bytes": len(base), "patch_bytes": len(dr.Patch), "compression": CompString(comp)}
		})
	}
	Ev.Probe("container_message_larger_than_16MiB")
}

// TestC09Wide: an old build with more than 65536 files; the new build has a file assembled from
// single blocks of old files with very high and very low indices; blocks that are read later are
// damaged. Through the safekeeper the application fails or gives the new build.
func TestC09Wide(t *testing.T) {
	Ev.Property = "C09"
	ft := &fatalT{t: t}
	const n = 65536 + 48
	multi := map[int]bool{}
	for _, i := range []int{0, 1, 2, 3, 5, 17, 65535, 65536, 65537, 65538, 65539, 65541, 65553, n - 1} {
		multi[i] = true
	}
	old := Tree{}
	name := func(i int) string { return fmt.Sprintf("w%02d/f%06d", i/4000, i) }
	for i := 0; i < n; i++ {
		if multi[i] {
			old[name(i)] = &Entry{Kind: KFile, Data: Bytes(uint64(i)+7, 4*BlockSize)}
		} else {
			old[name(i)] = &Entry{Kind: KFile, Data: []byte{byte(i), byte(i >> 8), byte(i >> 16)}}
		}
	}
	old.Normalize()
	nw := old.Clone()
	// "0new": block b of a high-index file, then block b+1 (and b) of the file 65536 below it, ...
	var assembled []byte
	blk := func(i, b int) []byte { return old[name(i)].Data[b*BlockSize : (b+1)*BlockSize] }
	for _, hi := range []int{65536, 65537, 65538, 65539, 65541, 65553} {
		lo := hi - 65536
		for b := 0; b < 3; b++ {
			assembled = append(assembled, blk(hi, b)...)
			assembled = append(assembled, blk(lo, b+1)...)
			assembled = append(assembled, blk(lo, b)...)
		}
	}
	nw["0new"] = &Entry{Kind: KFile, Data: assembled}
	dir, cleanup := RunDir()
	defer cleanup()
	oldDir, newDir := filepath.Join(dir, "old"), filepath.Join(dir, "new")
	Must(old.Materialize(oldDir), "old")
	Must(nw.Materialize(newDir), "new")
	dr := Diff(oldDir, newDir, &pwr.CompressionSettings{Algorithm: pwr.CompressionAlgorithm_NONE}, DiffSeams{})
	if dr.Err != nil || dr.Panic != "" {
		Violation(ft, "C09/patch-production", "WritePatch failed: %v %s", dr.Err, dr.Panic)
		return
	}
	oc, oh, err := ComputeSig(oldDir)
	Must(err, "signature of old build")
	sig := SigBytes(oc, oh, &pwr.CompressionSettings{Algorithm: pwr.CompressionAlgorithm_NONE})
	apply := func(from, out string) *ApplyResult {
		return ApplyFresh(dr.Patch, from, out, ApplyOpts{WrapPool: func(inner lake.Pool, c *tlc.Container) lake.Pool {
			sk, err := pwr.NewSafeKeeper(pwr.SafeKeeperParams{Inner: inner, Open: func() (savior.SeekSource, error) {
				s := seeksource.FromBytes(sig)
				_, err := s.Resume(nil)
				return s, err
			}})
			Must(err, "NewSafeKeeper")
			return sk
		}})
	}
	// only the assembled file is whitelisted-by-construction interesting; the rest are whole-file copies
	for round, damage := range [][]Fault{nil,
		{{Kind: "flip", Path: name(1), Off: BlockSize + 5, Seed: 3}},
		{{Kind: "flip", Path: name(5), Off: 2*BlockSize + 9, Seed: 1}, {Kind: "flip", Path: name(17), Off: 3*BlockSize - 1, Seed: 2}}} {
		from := oldDir
		if damage != nil {
			dmg, applied := ApplyFaults(old, damage)
			from = filepath.Join(dir, fmt.Sprintf("dmg%d", round))
			// materialize only what differs from the pristine copy: hard-link free copy of the tree is too
			// slow to repeat, so the damaged files are rewritten in a copy made once
			Must(dmg.Materialize(from), "damaged old")
			countFaults(applied)
		}
		out := filepath.Join(dir, fmt.Sprintf("out%d", round))
		ar := apply(from, out)
		if ar.Panic != "" {
			Violation(ft, "C09/panic", "wide build: apply through the safekeeper panicked: %s", ar.Panic)
			return
		}
		if damage == nil {
			if ar.Err != nil {
				Violation(ft, "C09/pristine-rejected", "wide build (%d files): an undamaged old build was rejected at %s: %v", n, ar.Stage, trimErr(ar.Err))
				return
			}
		}
		if ar.Err == nil {
			got := MustSnapshot(out).Tree
			if e, ok := got["0new"]; !ok || string(e.Data) != string(assembled) {
				Violation(ft, "C09/silently-wrong", "wide build (%d files), old build damaged (%v): apply through the safekeeper returned no error but 0new differs from the new build", n, faultStrings(damage))
				return
			}
			for _, f := range damage {
				if e, ok := got[f.Path]; !ok || string(e.Data) != string(nw[f.Path].Data) {
					Violation(ft, "C09/silently-wrong", "wide build (%d files), old build damaged (%v): apply through the safekeeper returned no error but %s differs from the new build", n, faultStrings(damage), f.Path)
					return
				}
			}
		}
		Ev.Eval(fnv64([]byte(fmt.Sprint(round))), damage != nil, func() interface{} {
			return map[string]interface{}{"files": n, "damage": faultStrings(damage), "apply_error": fmt.Sprint(ar.Err)}
		})
		cleanupDir(out)
	}
	Ev.Probe("old_build_with_more_than_65536_files")
}

func cleanupDir(d string) {
	os.RemoveAll(d)
}
