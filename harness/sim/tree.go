package sim

import (
	"bytes"
	"fmt"
	"os"
	"path"
	"path/filepath"
	"sort"
	"strings"
	"syscall"
)

// Kind of a tree entry.
type Kind int

const (
	KDir Kind = iota
	KFile
	KLink
	KFifo // a named pipe: only ever produced by damage, never part of a build
)

func (k Kind) String() string { return [...]string{"dir", "file", "symlink", "fifo"}[k] }

// Entry is one node of the independent directory model.
type Entry struct {
	Kind Kind
	Data []byte // files
	Dest string // symlinks
	Exec bool   // files: executable bit (not compared by Equal)
	// files: materialized as a hard link to this other file of the tree (Data is that file's
	// content); only ever produced by damage
	HardTo string
}

// Tree maps slash-separated relative paths to entries. Parents of every entry are present as
// directories (Normalize adds them). It is the oracle for every "same directory" claim; it shares
// no code with wharf or lake.
type Tree map[string]*Entry

func (t Tree) Clone() Tree {
	o := make(Tree, len(t))
	for p, e := range t {
		c := *e
		o[p] = &c
	}
	return o
}

// Normalize makes sure every parent directory exists as an entry.
func (t Tree) Normalize() Tree {
	for p := range t {
		for d := path.Dir(p); d != "." && d != "/"; d = path.Dir(d) {
			if _, ok := t[d]; !ok {
				t[d] = &Entry{Kind: KDir}
			}
		}
	}
	return t
}

func (t Tree) Paths() []string {
	ps := make([]string, 0, len(t))
	for p := range t {
		ps = append(ps, p)
	}
	sort.Strings(ps)
	return ps
}

func (t Tree) Files() []string {
	var ps []string
	for _, p := range t.Paths() {
		if t[p].Kind == KFile {
			ps = append(ps, p)
		}
	}
	return ps
}

func (t Tree) TotalSize() int64 {
	var n int64
	for _, e := range t {
		n += int64(len(e.Data))
	}
	return n
}

// Under reports whether p is strictly inside directory d.
func Under(p, d string) bool { return strings.HasPrefix(p, d+"/") }

// RemoveSubtree deletes p and everything below it.
func (t Tree) RemoveSubtree(p string) {
	for q := range t {
		if q == p || Under(q, p) {
			delete(t, q)
		}
	}
}

// Materialize writes the tree into dir (which is created; it must be empty or absent).
func (t Tree) Materialize(dir string) error {
	if err := os.MkdirAll(dir, 0o755); err != nil {
		return err
	}
	ps := t.Paths()
	for _, p := range ps {
		e := t[p]
		full := filepath.Join(dir, filepath.FromSlash(p))
		switch e.Kind {
		case KDir:
			if err := os.MkdirAll(full, 0o755); err != nil {
				return err
			}
		}
	}
	for _, p := range ps {
		e := t[p]
		full := filepath.Join(dir, filepath.FromSlash(p))
		switch e.Kind {
		case KFile:
			if err := os.MkdirAll(filepath.Dir(full), 0o755); err != nil {
				return err
			}
			mode := os.FileMode(0o644)
			if e.Exec {
				mode = 0o755
			}
			if err := os.WriteFile(full, e.Data, mode); err != nil {
				return err
			}
		case KLink:
			if err := os.MkdirAll(filepath.Dir(full), 0o755); err != nil {
				return err
			}
			if err := os.Symlink(e.Dest, full); err != nil {
				return err
			}
		case KFifo:
			if err := os.MkdirAll(filepath.Dir(full), 0o755); err != nil {
				return err
			}
			if err := syscall.Mkfifo(full, 0o644); err != nil {
				return err
			}
		}
	}
	for _, p := range ps {
		e := t[p]
		if e.Kind != KFile || e.HardTo == "" {
			continue
		}
		if te, ok := t[e.HardTo]; !ok || te.Kind != KFile || te.HardTo != "" {
			continue
		}
		full := filepath.Join(dir, filepath.FromSlash(p))
		if err := os.Remove(full); err != nil {
			return err
		}
		if err := os.Link(filepath.Join(dir, filepath.FromSlash(e.HardTo)), full); err != nil {
			return err
		}
	}
	return nil
}

// Meta is what "untouched" compares in addition to content.
type Meta struct {
	Ino     uint64
	MtimeNs int64
	Size    int64
	Mode    uint32
}

// Snap is a snapshot of a real directory: content tree plus per-path metadata.
type Snap struct {
	Tree Tree
	Meta map[string]Meta
}

// Snapshot reads dir with Lstat (never following links) into a Snap. A missing dir yields an
// empty tree.
func Snapshot(dir string) (*Snap, error) {
	s := &Snap{Tree: Tree{}, Meta: map[string]Meta{}}
	err := filepath.Walk(dir, func(p string, fi os.FileInfo, err error) error {
		if err != nil {
			if os.IsNotExist(err) && p == dir {
				return filepath.SkipDir
			}
			return err
		}
		rel, rerr := filepath.Rel(dir, p)
		if rerr != nil {
			return rerr
		}
		rel = filepath.ToSlash(rel)
		m := Meta{Size: fi.Size(), MtimeNs: fi.ModTime().UnixNano(), Mode: uint32(fi.Mode())}
		if st, ok := fi.Sys().(*syscall.Stat_t); ok {
			m.Ino = st.Ino
		}
		if rel == "." {
			s.Meta["."] = m
			return nil
		}
		switch {
		case fi.IsDir():
			s.Tree[rel] = &Entry{Kind: KDir}
		case fi.Mode()&os.ModeSymlink != 0:
			d, lerr := os.Readlink(p)
			if lerr != nil {
				return lerr
			}
			s.Tree[rel] = &Entry{Kind: KLink, Dest: d}
		case fi.Mode()&os.ModeNamedPipe != 0:
			s.Tree[rel] = &Entry{Kind: KFifo}
		case fi.Mode().IsRegular():
			b, rerr := os.ReadFile(p)
			if rerr != nil {
				return rerr
			}
			s.Tree[rel] = &Entry{Kind: KFile, Data: b, Exec: fi.Mode()&0o100 != 0}
		default:
			return fmt.Errorf("snapshot: unsupported file type at %s: %v", rel, fi.Mode())
		}
		s.Meta[rel] = m
		return nil
	})
	if err != nil && os.IsNotExist(err) {
		return s, nil
	}
	return s, err
}

// MustSnapshot is Snapshot that panics on harness I/O trouble (tmpfs failure is not a verdict).
func MustSnapshot(dir string) *Snap {
	s, err := Snapshot(dir)
	if err != nil {
		panic(HarnessError{fmt.Sprintf("snapshot %s: %v", dir, err)})
	}
	return s
}

// HarnessError marks trouble in the harness itself; it is reported as exit 2, never as a violation.
type HarnessError struct{ Msg string }

func (h HarnessError) Error() string { return "HARNESS: " + h.Msg }

// Diff returns "" when a and b have the same set of paths, kinds, file bytes and symlink
// destinations; otherwise a short description of the first differences. Modes and times are
// deliberately ignored: no property mentions them.
func (a Tree) Diff(b Tree) string {
	var out []string
	add := func(f string, args ...interface{}) {
		if len(out) < 6 {
			out = append(out, fmt.Sprintf(f, args...))
		}
	}
	for _, p := range a.Paths() {
		ea := a[p]
		eb, ok := b[p]
		if !ok {
			add("%s (%s) missing on right", p, ea.Kind)
			continue
		}
		if ea.Kind != eb.Kind {
			add("%s kind %s vs %s", p, ea.Kind, eb.Kind)
			continue
		}
		switch ea.Kind {
		case KFile:
			if !bytes.Equal(ea.Data, eb.Data) {
				add("%s content differs (len %d vs %d, first diff at %d)", p, len(ea.Data), len(eb.Data), firstDiff(ea.Data, eb.Data))
			}
		case KLink:
			if ea.Dest != eb.Dest {
				add("%s symlink dest %q vs %q", p, ea.Dest, eb.Dest)
			}
		}
	}
	for _, p := range b.Paths() {
		if _, ok := a[p]; !ok {
			add("%s (%s) extra on right", p, b[p].Kind)
		}
	}
	return strings.Join(out, "; ")
}

func firstDiff(a, b []byte) int {
	n := len(a)
	if len(b) < n {
		n = len(b)
	}
	for i := 0; i < n; i++ {
		if a[i] != b[i] {
			return i
		}
	}
	return n
}

// Untouched returns "" when after is indistinguishable from before: same tree, and for every
// path the same inode, size and modification time.
func Untouched(before, after *Snap) string {
	if d := before.Tree.Diff(after.Tree); d != "" {
		return d
	}
	for p, mb := range before.Meta {
		ma := after.Meta[p]
		if p == "." || before.Tree[p].Kind == KDir {
			// a directory's mtime changes when an entry is created or removed in it, so this
			// also catches temporaries that came and went between two snapshots.
			if ma.Ino != mb.Ino || ma.MtimeNs != mb.MtimeNs {
				return fmt.Sprintf("%s: directory modified (ino %d->%d mtime %d->%d)", p, mb.Ino, ma.Ino, mb.MtimeNs, ma.MtimeNs)
			}
			continue
		}
		if ma.Ino != mb.Ino || ma.MtimeNs != mb.MtimeNs || ma.Size != mb.Size {
			return fmt.Sprintf("%s: metadata changed (ino %d->%d mtime %d->%d size %d->%d)", p, mb.Ino, ma.Ino, mb.MtimeNs, ma.MtimeNs, mb.Size, ma.Size)
		}
	}
	return ""
}

// Describe returns a compact human-readable listing used in evidence samples and reports.
func (t Tree) Describe() []string {
	var out []string
	for _, p := range t.Paths() {
		e := t[p]
		switch e.Kind {
		case KDir:
			out = append(out, p+"/")
		case KFile:
			out = append(out, fmt.Sprintf("%s [%d B #%08x]", p, len(e.Data), uint32(fnv64(e.Data))))
		case KLink:
			out = append(out, fmt.Sprintf("%s -> %s", p, e.Dest))
		}
	}
	return out
}

func (t Tree) Hash() uint64 {
	h := uint64(1469598103934665603)
	for _, p := range t.Paths() {
		e := t[p]
		h = h*1099511628211 ^ fnv64([]byte(p), []byte{byte(e.Kind)}, e.Data, []byte(e.Dest))
	}
	return h
}

// DiffExec reports regular files present in both trees whose executable bit differs (Diff leaves
// permission bits alone; a build does say which of its files are executable).
func (a Tree) DiffExec(b Tree) string {
	var out []string
	for _, p := range a.Paths() {
		ea, eb := a[p], b[p]
		if eb == nil || ea.Kind != KFile || eb.Kind != KFile || ea.Exec == eb.Exec {
			continue
		}
		if len(out) < 6 {
			out = append(out, fmt.Sprintf("%s executable=%v, expected %v", p, eb.Exec, ea.Exec))
		}
	}
	return strings.Join(out, "; ")
}
