package sim

import (
	"encoding/json"
	"fmt"
	"os"
	"path/filepath"
	"sort"
	"strings"
	"sync"
	"sync/atomic"
	"time"
)

// Evidence is accumulated by one test process and written as JSON to $VERIF_EVIDENCE_OUT by
// Flush; the driver merges the files of all processes of a check.
type Evidence struct {
	mu sync.Mutex

	Property    string            `json:"property"`
	Evaluations int               `json:"evaluations"`
	Hashes      map[string]bool   `json:"-"`
	HashList    []string          `json:"nontrivial_hashes"`
	Samples     []interface{}     `json:"samples"`
	Faults      map[string]int    `json:"fault_counts"`
	Probes      map[string]int    `json:"probes"`
	SimSteps    int64             `json:"sim_steps"`
	EventLogs   map[string]bool   `json:"-"`
	EventLogN   []string          `json:"event_log_hashes"`
	KnownHits   map[string]int    `json:"known_finding_hits"`
	Budget      int               `json:"budget_exceeded"`
	Leaks       int               `json:"leak_observations"`
	Assumptions []string          `json:"assumptions"`
	Components  map[string]string `json:"components"`
	Rule        string            `json:"rule"`
	WallS       float64           `json:"wall_s"`
	Notes       []string          `json:"notes"`
	start       time.Time
}

var Ev = &Evidence{
	Hashes: map[string]bool{}, Faults: map[string]int{}, Probes: map[string]int{},
	EventLogs: map[string]bool{}, KnownHits: map[string]int{}, Components: map[string]string{},
	start: time.Now(),
}

const maxSamples = 6

// Eval records one executed case. nontrivial cases are de-duplicated by hash.
func (e *Evidence) Eval(hash uint64, nontrivial bool, sample func() interface{}) {
	e.mu.Lock()
	defer e.mu.Unlock()
	e.Evaluations++
	if nontrivial {
		k := fmt.Sprintf("%016x", hash)
		if !e.Hashes[k] {
			e.Hashes[k] = true
			if len(e.Samples) < maxSamples && sample != nil {
				e.Samples = append(e.Samples, sample())
			}
		}
	}
}

func (e *Evidence) Fault(kind string, n int) {
	if n == 0 {
		return
	}
	e.mu.Lock()
	e.Faults[kind] += n
	e.mu.Unlock()
}

func (e *Evidence) Probe(name string) {
	e.mu.Lock()
	e.Probes[name]++
	e.mu.Unlock()
}

func (e *Evidence) ProbeIf(cond bool, name string) {
	if cond {
		e.Probe(name)
	} else {
		e.mu.Lock()
		if _, ok := e.Probes[name]; !ok {
			e.Probes[name] = 0
		}
		e.mu.Unlock()
	}
}

func (e *Evidence) Steps(n int) {
	atomic.AddInt64(&e.SimSteps, int64(n))
}

func (e *Evidence) EventLog(h uint64) {
	e.mu.Lock()
	e.EventLogs[fmt.Sprintf("%016x", h)] = true
	e.mu.Unlock()
}

func (e *Evidence) Assume(s string) {
	e.mu.Lock()
	defer e.mu.Unlock()
	for _, a := range e.Assumptions {
		if a == s {
			return
		}
	}
	e.Assumptions = append(e.Assumptions, s)
}

func (e *Evidence) Component(name, how string) {
	e.mu.Lock()
	e.Components[name] = how
	e.mu.Unlock()
}

func (e *Evidence) Note(s string) {
	e.mu.Lock()
	if len(e.Notes) < 20 {
		e.Notes = append(e.Notes, s)
	}
	e.mu.Unlock()
}

// Flush writes the evidence fragment; called from TestMain.
func (e *Evidence) Flush() {
	out := os.Getenv("VERIF_EVIDENCE_OUT")
	if out == "" {
		return
	}
	e.mu.Lock()
	defer e.mu.Unlock()
	e.HashList = e.HashList[:0]
	for k := range e.Hashes {
		e.HashList = append(e.HashList, k)
	}
	sort.Strings(e.HashList)
	e.EventLogN = e.EventLogN[:0]
	for k := range e.EventLogs {
		e.EventLogN = append(e.EventLogN, k)
	}
	sort.Strings(e.EventLogN)
	e.WallS = time.Since(e.start).Seconds()
	b, err := json.Marshal(e)
	if err != nil {
		fmt.Fprintln(os.Stderr, "evidence marshal:", err)
		return
	}
	os.MkdirAll(filepath.Dir(out), 0o755)
	os.WriteFile(out, b, 0o644)
}

// ---- findings -------------------------------------------------------------------------------

type finding struct {
	Property string `json:"property"`
	ID       string `json:"id"`
	Status   string `json:"status"`
}

var knownOnce sync.Once
var knownClasses map[string]bool

func loadKnown() {
	knownClasses = map[string]bool{}
	p := os.Getenv("VERIF_KNOWN_FINDINGS")
	if p == "" {
		return
	}
	b, err := os.ReadFile(p)
	if err != nil {
		return
	}
	var doc struct {
		Findings []finding `json:"findings"`
	}
	if json.Unmarshal(b, &doc) != nil {
		return
	}
	for _, f := range doc.Findings {
		if f.Status == "known" {
			knownClasses[f.ID] = true
		}
	}
}

// IsKnown reports whether a violation class is listed as a known (unrepaired) finding.
func IsKnown(class string) bool {
	knownOnce.Do(loadKnown)
	return knownClasses[class]
}

// Failer is the part of *rapid.T / *testing.T the oracles need.
type Failer interface {
	Fatalf(format string, args ...interface{})
	Logf(format string, args ...interface{})
}

// Violation reports a property violation of the given class. A class is a narrow,
// harness-computed classification ("C02/kind-change-commit"); if that exact class is listed as a
// known finding the hit is counted and the case is abandoned without failing, otherwise the test
// fails (rapid then minimises and writes the replay file).
// It returns true when the caller should stop examining this case.
func Violation(t Failer, class string, format string, args ...interface{}) bool {
	msg := fmt.Sprintf(format, args...)
	if class != "" && IsKnown(class) {
		Ev.mu.Lock()
		Ev.KnownHits[class]++
		Ev.mu.Unlock()
		return true
	}
	t.Fatalf("PROPERTY-VIOLATION class=%s: %s", class, msg)
	return true
}

// ---- run directories ------------------------------------------------------------------------

var runCounter int64

// DiskRoot returns the root for simulated disks.
func DiskRoot() string {
	if r := os.Getenv("VERIF_DISK_ROOT"); r != "" {
		return r
	}
	if fi, err := os.Stat("/dev/shm"); err == nil && fi.IsDir() {
		return "/dev/shm"
	}
	return os.TempDir()
}

// RunDir creates a fresh directory for one run; the returned cleanup removes it.
func RunDir() (string, func()) {
	n := atomic.AddInt64(&runCounter, 1)
	d := filepath.Join(DiskRoot(), fmt.Sprintf("wharfsim.%d.%d", os.Getpid(), n))
	os.RemoveAll(d)
	if err := os.MkdirAll(d, 0o755); err != nil {
		panic(HarnessError{err.Error()})
	}
	return d, func() {
		// make everything removable again (fault injection may have chmod'ed)
		filepath.Walk(d, func(p string, fi os.FileInfo, err error) error {
			if err == nil && fi.IsDir() {
				os.Chmod(p, 0o755)
			}
			return nil
		})
		os.RemoveAll(d)
	}
}

// Must panics with a HarnessError: used for harness-side I/O that cannot legitimately fail.
func Must(err error, what string) {
	if err != nil {
		panic(HarnessError{what + ": " + err.Error()})
	}
}

func trunc(s string, n int) string {
	if len(s) > n {
		return s[:n] + "…"
	}
	return s
}

func joinLines(ss []string, max int) string {
	if len(ss) > max {
		ss = append(append([]string{}, ss[:max]...), fmt.Sprintf("… (%d more)", len(ss)-max))
	}
	return strings.Join(ss, "\n")
}
