package sim

import (
	"fmt"
	"os"
	"path/filepath"
	"testing"

	"github.com/itchio/wharf/pwr"
)

// TestC02Directed: explicit in-place applications across kind changes (directory <-> file <->
// symlink) combined with whole-file reuse out of, into and across the changing paths. These are
// the shapes of the two former known findings (#22, #23) and their nestings; each must leave the
// new build exactly.
func TestC02Directed(t *testing.T) {
	Ev.Property = "C02"
	ft := &fatalT{t: t}
	f := func(seed uint64, n int) *Entry { return &Entry{Kind: KFile, Data: Bytes(seed, n)} }
	l := func(dest string) *Entry { return &Entry{Kind: KLink, Dest: dest} }
	d := func() *Entry { return &Entry{Kind: KDir} }
	cases := []struct {
		name     string
		old, new Tree
	}{
		{"dir with child -> new file", Tree{"d/x": f(1, 1000), "keep": f(2, 10)}, Tree{"d": f(3, 500), "keep": f(2, 10)}},
		{"dir with nested dirs -> new file", Tree{"d/a/b/x": f(1, 1000), "d/e": d(), "d/l": l("a")}, Tree{"d": f(3, 500)}},
		{"empty dir -> new file", Tree{"d": d(), "k": f(2, 5)}, Tree{"d": f(3, 70000), "k": f(2, 5)}},
		{"dir -> file that is a rename of another file", Tree{"d/x": f(1, 1000), "src": f(4, 70000)}, Tree{"d": f(4, 70000)}},
		{"dir -> file that is a copy of a kept file", Tree{"d/x": f(1, 1000), "src": f(4, 70000)}, Tree{"d": f(4, 70000), "src": f(4, 70000)}},
		{"dir -> file that is a copy of a patched file", Tree{"d/x": f(1, 1000), "src": f(4, 70000)}, Tree{"d": f(4, 70000), "src": append2(f(4, 70000), 9)}},
		{"dir -> file whose content is its own former child", Tree{"d/x": f(1, 70000), "d/y": f(2, 10)}, Tree{"d": f(1, 70000)}},
		{"dir -> file, a child moves out", Tree{"d/x": f(1, 70000), "d/y": f(2, 10)}, Tree{"d": f(3, 10), "out/x": f(1, 70000)}},
		{"dir -> file, a child moves out to two places", Tree{"d/x": f(1, 70000)}, Tree{"d": f(3, 10), "a": f(1, 70000), "z/b": f(1, 70000)}},
		{"dir -> symlink, a child moves out", Tree{"d/x": f(1, 70000), "t/k": f(5, 5)}, Tree{"d": l("t"), "t/k": f(5, 5), "t/x": f(1, 70000)}},
		{"dir -> dangling symlink, deep child moves out", Tree{"d/a/b/x": f(1, 70000)}, Tree{"d": l("nowhere"), "x": f(1, 70000)}},
		{"file -> dir holding the file", Tree{"q": f(4, 1000)}, Tree{"q/inner": f(4, 1000)}},
		{"file -> dir holding the file twice and more", Tree{"q": f(4, 70000)}, Tree{"q/a": f(4, 70000), "q/b/c": f(4, 70000), "q/n": f(6, 10)}},
		{"file -> symlink, content reused elsewhere", Tree{"f0": f(5, 70000)}, Tree{"f0": l("nowhere"), "f1": f(5, 70000)}},
		{"file -> symlink to its own new copy", Tree{"f0": f(5, 70000)}, Tree{"f0": l("f1"), "f1": f(5, 70000)}},
		{"file -> dir, content reused and also patched copy", Tree{"q": f(4, 140000)}, Tree{"q/same": f(4, 140000), "q/edited": append2(f(4, 140000), 1)}},
		{"two dirs swap roles with files", Tree{"a/x": f(1, 70000), "b": f(2, 70000)}, Tree{"a": f(2, 70000), "b/x": f(1, 70000)}},
		{"nested: d/f -> e (dir->file) while e/g -> d (dir->file)", Tree{"d/f": f(1, 70000), "e/g": f(2, 70000)}, Tree{"e": f(1, 70000), "d": f(2, 70000)}},
		{"chain through a dir->file path", Tree{"d/x": f(1, 70000), "m": f(2, 70000)}, Tree{"d": f(2, 70000), "m": f(1, 70000)}},
		{"symlink -> dir holding reused file", Tree{"s": l("nowhere"), "src": f(1, 70000)}, Tree{"s/in": f(1, 70000)}},
		{"symlink to dir -> real dir with moved content", Tree{"real/x": f(1, 70000), "s": l("real")}, Tree{"s/x": f(1, 70000)}},
		{"dir -> file and its child -> symlink elsewhere", Tree{"d/x": f(1, 70000)}, Tree{"d": f(1, 70000), "x": l("d")}},
		{"dir -> symlink to a dir with the same child names", Tree{"d/x": f(1, 100), "d/sub": d(), "d/ln": l("x"), "t/x": f(2, 100), "t/sub": d(), "t/ln": l("x")}, Tree{"d": l("t"), "t/x": f(2, 100), "t/sub": d(), "t/ln": l("x")}},
		{"dir -> symlink to '.', children also exist at top level", Tree{"d/x": f(1, 100), "x": f(2, 100)}, Tree{"d": l("."), "x": f(2, 100)}},
		{"dir -> file, same names elsewhere", Tree{"d/x": f(1, 100), "x": f(2, 100)}, Tree{"d": f(3, 10), "x": f(2, 100)}},
		{"dir -> symlink while siblings whose names start the same way are deleted", Tree{"lib/x": f(1, 100), "lib64/x": f(2, 100), "libexec/tool": f(3, 100), "lib.txt": f(4, 10), "libs": d()}, Tree{"lib": l("lib64"), "lib64/x": f(2, 100)}},
		{"file -> implied directory two levels above new files", Tree{"a": f(1, 70000), "k": f(2, 5)}, Tree{"a/b/c/f": f(3, 100), "a/b/c/g": f(1, 70000), "k": f(2, 5)}},
		{"symlink -> implied directory two levels above new files", Tree{"a": l("c"), "c/x": f(2, 5)}, Tree{"a/b/f": f(3, 100), "c/x": f(2, 5)}},
		{"deep old tree disappears, only its files are named", Tree{"a/b/c/d/f": f(1, 100), "k": f(2, 5)}, Tree{"k": f(2, 5)}},
		{"deep old tree moves wholesale", Tree{"a/b/c/f": f(1, 70000), "a/b/c/g": f(2, 70000)}, Tree{"z/y/x/f": f(1, 70000), "z/y/x/g": f(2, 70000)}},
		{"two reused files displaced by a kind change, next to a new file named like the first parking name", Tree{"data/a.bin": f(1, 70000), "data/b.bin": f(2, 70000), "data/c.bin": f(3, 70000)}, Tree{"data": f(9, 10), "a.bin": f(1, 70000), "b.bin": f(2, 70000), "c.bin": f(3, 70000), ".butler-parked-0": f(5, 100), ".butler-parked-1": f(6, 100)}},
		{"swap next to a symlink named like a temporary name", Tree{"x": f(1, 70000), "y": f(2, 70000), ".butler-rename-1": l("x"), ".butler-rename-2": l("y")}, Tree{"x": f(2, 70000), "y": f(1, 70000), ".butler-rename-1": l("x"), ".butler-rename-2": l("y")}},
		{"swap next to a directory named like a temporary name", Tree{"bin/x": f(1, 70000), "bin/y": f(2, 70000), "bin/.butler-rename-1/keep": f(3, 100), "bin/.butler-rename-2/keep": f(4, 100)}, Tree{"bin/x": f(2, 70000), "bin/y": f(1, 70000), "bin/.butler-rename-1/keep": f(3, 100), "bin/.butler-rename-2/keep": f(4, 100)}},
		{"swap of two files whose names are close to the length limit", Tree{longName: f(1, 70000), longName + "2": f(2, 70000)}, Tree{longName: f(2, 70000), longName + "2": f(1, 70000)}},
		{"swap next to a directory that is named like a temporary name and holds nothing but a directory", Tree{"bin/x": f(1, 70000), "bin/y": f(2, 70000), "bin/.butler-rename-1/sub/keep": f(3, 100), "bin/.butler-rename-2/sub/keep": f(4, 100)}, Tree{"bin/x": f(2, 70000), "bin/y": f(1, 70000), "bin/.butler-rename-1/sub/keep": f(3, 100), "bin/.butler-rename-2/sub/keep": f(4, 100)}},
		{"rename chain in the root next to such a directory", Tree{"a": f(1, 70000), "b": f(2, 70000), ".butler-rename-1/sub/keep": f(3, 100)}, Tree{"b": f(1, 70000), "c": f(2, 70000), ".butler-rename-1/sub/keep": f(3, 100)}},
		{"rename chain next to files named like temporary names", Tree{"a": f(1, 70000), "b": f(2, 70000), "b.butler-rename-1": f(3, 100), ".butler-rename-1": f(4, 100)}, Tree{"b": f(1, 70000), "c": f(2, 70000), "b.butler-rename-1": f(3, 100), ".butler-rename-1": f(4, 100)}},
		{"parked file next to a new file named like a parking name", Tree{"q": f(4, 1000)}, Tree{"q/inner": f(4, 1000), ".butler-parked-0": f(5, 100)}},
		{"file under dir that becomes symlink is patched elsewhere", Tree{"d/x": f(1, 140000)}, Tree{"d": l("e"), "e/x": append2(f(1, 140000), 3)}},
	}
	var fails []string
	for _, c := range cases {
		for _, variant := range []struct {
			optimized bool
			zipLike   uint64
		}{{false, 0}, {true, 0}, {false, 3}, {false, 8}} {
			optimized := variant.optimized
			name := fmt.Sprintf("%s (optimized=%v, zip-like containers=%d, broken rename=%v)", c.name, optimized, variant.zipLike, os.Getenv("BOWL_DEBUG_BROKEN_RENAME") == "1")
			ar := directedInPlace(c.old.Clone(), c.new.Clone(), optimized, variant.zipLike)
			Ev.Eval(fnv64([]byte(name)), true, func() interface{} { return map[string]interface{}{"directed_case": name} })
			switch {
			case ar == nil:
				fails = append(fails, name+": producing the patch failed")
			case ar.Err != nil || ar.Panic != "":
				fails = append(fails, fmt.Sprintf("%s: in-place apply failed at %s: %v %s", name, ar.Stage, ar.Err, ar.Panic))
			case ar.Invariant != "":
				fails = append(fails, name+": "+ar.Invariant)
			}
		}
	}
	if len(fails) > 0 {
		Violation(ft, "C02/directed", "%d of %d directed in-place applications across kind changes went wrong:\n%s", len(fails), 4*len(cases), joinLines(fails, 60))
	}
}

func append2(e *Entry, seed uint64) *Entry {
	return &Entry{Kind: KFile, Data: append(append([]byte{}, e.Data...), Bytes(seed, 100)...)}
}

// directedInPlace diffs old -> new (optionally optimizing the patch) and applies it in place on a
// copy of old; Invariant carries the difference to the new build, if any.
func directedInPlace(old, nw Tree, optimized bool, zipLikeSeed uint64) *ApplyResult {
	dir, cleanup := RunDir()
	defer cleanup()
	oldDir, newDir, inDir, stage := filepath.Join(dir, "old"), filepath.Join(dir, "new"), filepath.Join(dir, "in"), filepath.Join(dir, "stage")
	Must(old.Normalize().Materialize(oldDir), "old")
	Must(nw.Normalize().Materialize(newDir), "new")
	Must(old.Materialize(inDir), "in")
	dr := Diff(oldDir, newDir, &pwr.CompressionSettings{Algorithm: pwr.CompressionAlgorithm_NONE}, DiffSeams{ZipLikeContainers: zipLikeSeed})
	if dr.Err != nil || dr.Panic != "" {
		return nil
	}
	patch := dr.Patch
	if optimized {
		or := Optimize(patch, oldDir, newDir, OptimizeKnobs{Partitions: 2, ForceMapAll: true}, nil, nil)
		if or.Err != nil || or.Panic != "" {
			return nil
		}
		patch = or.Patch
	}
	before := MustSnapshot(inDir)
	ar := ApplyInPlace(patch, inDir, stage, ApplyOpts{BeforeCommit: func() string { return Untouched(before, MustSnapshot(inDir)) }})
	if ar.Err == nil && ar.Panic == "" && ar.Invariant == "" {
		if d := nw.Diff(MustSnapshot(inDir).Tree); d != "" {
			ar.Invariant = "directory after Commit differs from the new build: " + d
		}
	}
	return ar
}
