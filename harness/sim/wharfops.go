package sim

import (
	"bytes"
	"context"
	"fmt"
	"github.com/pkg/errors"
	"io"
	"path"
	"runtime"
	"runtime/debug"
	"strings"
	"sync"
	"time"

	"github.com/itchio/headway/state"
	"github.com/itchio/lake"
	"github.com/itchio/lake/pools/fspool"
	"github.com/itchio/lake/tlc"
	"github.com/itchio/savior"
	"github.com/itchio/savior/seeksource"
	"github.com/itchio/wharf/bsdiff"
	"github.com/itchio/wharf/pwr"
	"github.com/itchio/wharf/pwr/bowl"
	"github.com/itchio/wharf/pwr/patcher"
	"github.com/itchio/wharf/pwr/rediff"
	"github.com/itchio/wharf/wsync"
	"pgregory.net/rapid"

	_ "github.com/itchio/wharf/compressors/cbrotli"
	_ "github.com/itchio/wharf/compressors/gzip"
	_ "github.com/itchio/wharf/decompressors/cbrotli"
	_ "github.com/itchio/wharf/decompressors/gzip"
)

// Quiet is a consumer that swallows everything.
func Quiet() *state.Consumer { return &state.Consumer{} }

// Walk builds the container of a directory with lake's walker (real code, not wharf's).
func Walk(dir string) *tlc.Container {
	c, err := tlc.WalkDir(dir, tlc.WalkOpts{Filter: tlc.KeepAllFilter})
	Must(err, "tlc.WalkDir "+dir)
	return c
}

// GenCompression draws compression settings over every registered algorithm and quality.
func GenCompression(rt *rapid.T) *pwr.CompressionSettings {
	switch rapid.IntRange(0, 5).Draw(rt, "algo") {
	case 0, 1:
		return &pwr.CompressionSettings{Algorithm: pwr.CompressionAlgorithm_NONE}
	case 2, 3:
		// gzip levels: -2 (huffman only), -1 (default), 0 (none) .. 9
		return &pwr.CompressionSettings{Algorithm: pwr.CompressionAlgorithm_GZIP, Quality: int32(rapid.IntRange(-2, 9).Draw(rt, "gzq"))}
	default:
		q := rapid.IntRange(0, 9).Draw(rt, "brq")
		if rapid.IntRange(0, 99).Draw(rt, "brhi") == 0 {
			q = rapid.IntRange(10, 11).Draw(rt, "brq2")
		}
		return &pwr.CompressionSettings{Algorithm: pwr.CompressionAlgorithm_BROTLI, Quality: int32(q)}
	}
}

func CompString(c *pwr.CompressionSettings) string {
	return fmt.Sprintf("%s-q%d", c.Algorithm, c.Quality)
}

// DiffSeams are the simulated arguments of WritePatch.
type DiffSeams struct {
	SourceSlice *Slicer           // short reads on the new-build pool
	Yield       func(site string) // park points in pool reads and output writes
	Ctx         context.Context
	EOFWith     bool // new-build pool readers deliver io.EOF together with the last bytes
	ZeroReads   int  // every n-th read of the new-build pool returns (0, nil)
	FailReadAt  int  // the n-th read of the new-build pool fails (the diff is expected to fail)
	SigViaFile  bool // the old build's signature is read back from a signature file (build-chain workflow)
	// ZipLikeContainers: both containers list directories the way a container walked from a zip
	// archive does: in no particular order, and without the directories that are merely implied by
	// the entries below them (seed != 0)
	ZipLikeContainers uint64
	Twice             bool // WritePatch is called a second time on the same DiffContext (another destination); the result reported is the second one's
	// CancelFirstAtRead > 0: a first WritePatch on the same DiffContext (own pool, own destinations)
	// is cancelled at that read of its source pool; the reported result is the retry's. Whatever the
	// first attempt left running keeps being scheduled while the retry runs.
	CancelFirstAtRead int
	// ReleaseFirstAtRead: the source read during which the first attempt was cancelled stays in
	// flight until the retry's pool gets its n-th read (or until the retry is over)
	ReleaseFirstAtRead int
	// FailFirstOpenAt > 0 (free-running only): a first WritePatch on the same DiffContext, into
	// the SAME destination writers, fails because its pool cannot open the n-th file; the garbage
	// collector is then given the chance to run finalizers before the writers are emptied and the
	// real WritePatch starts. LateBytes reports what arrived in the writers after the failed call
	// had returned.
	FailFirstOpenAt int
}

// DiffResult is what a diff run produced.
type DiffResult struct {
	Patch, Sig    []byte
	Fresh, Reused int64
	Err           error
	Panic         string
	SourcePool    *Pool
	SecondDiffers bool  // Twice: the second WritePatch wrote other patch bytes than the first
	FirstErr      error // CancelFirstAtRead / FailFirstOpenAt: what the first attempt returned
	FirstRan      bool
	LateBytes     int // FailFirstOpenAt: bytes that reached the destinations after the failed call returned
}

// Recover runs f and converts a panic into a string (value + stack).
func Recover(f func()) (panicMsg string) {
	defer func() {
		if r := recover(); r != nil {
			if he, ok := r.(HarnessError); ok {
				panic(he)
			}
			panicMsg = fmt.Sprintf("%v\n%s", r, trunc(string(debug.Stack()), 4000))
		}
	}()
	f()
	return ""
}

// Diff signs oldDir, then runs DiffContext.WritePatch from oldDir to newDir with the given seams.
func Diff(oldDir, newDir string, comp *pwr.CompressionSettings, seams DiffSeams) *DiffResult {
	res := &DiffResult{}
	ctx := seams.Ctx
	if ctx == nil {
		ctx = context.Background()
	}
	targetContainer := Walk(oldDir)
	sourceContainer := Walk(newDir)

	if seams.ZipLikeContainers != 0 {
		zipLike(targetContainer, seams.ZipLikeContainers)
		zipLike(sourceContainer, seams.ZipLikeContainers+1)
	}
	targetSig, err := pwr.ComputeSignature(ctx, targetContainer, fspool.New(targetContainer, oldDir), Quiet())
	if err != nil {
		res.Err = fmt.Errorf("ComputeSignature(old): %w", err)
		return res
	}
	if seams.SigViaFile {
		// what a build chain does: the signature written next to the previous patch is read back
		src := seeksource.FromBytes(SigBytes(targetContainer, targetSig, &pwr.CompressionSettings{Algorithm: pwr.CompressionAlgorithm_NONE}))
		if _, rerr := src.Resume(nil); rerr != nil {
			res.Err = rerr
			return res
		}
		si, rerr := pwr.ReadSignature(ctx, src)
		if rerr != nil {
			res.Err = fmt.Errorf("ReadSignature(old): %w", rerr)
			return res
		}
		targetSig = si.Hashes
	}
	sp := &Pool{Inner: fspool.New(sourceContainer, newDir), Name: "srcpool", Slice: seams.SourceSlice, Yield: seams.Yield, EOFWith: seams.EOFWith, ZeroReads: seams.ZeroReads, FailRead: seams.FailReadAt}
	res.SourcePool = sp
	pw := &Writer{Name: "patch", Yield: seams.Yield}
	sw := &Writer{Name: "sig", Yield: seams.Yield}
	dctx := &pwr.DiffContext{
		Compression:     comp,
		Consumer:        Quiet(),
		SourceContainer: sourceContainer,
		Pool:            sp,
		TargetContainer: targetContainer,
		TargetSignature: targetSig,
	}
	var gate chan struct{}
	var gateOnce sync.Once
	openGate := func() {
		if gate != nil {
			gateOnce.Do(func() { close(gate) })
		}
	}
	if seams.CancelFirstAtRead > 0 {
		ctx0, cancel := context.WithCancel(ctx)
		var mu sync.Mutex
		reads := 0
		if seams.ReleaseFirstAtRead > 0 {
			gate = make(chan struct{})
			retryReads := 0
			sp.OnRead = func(ReadEvent) {
				mu.Lock()
				retryReads++
				hit := retryReads == seams.ReleaseFirstAtRead
				mu.Unlock()
				if hit {
					openGate()
				}
			}
		}
		sp0 := &Pool{Inner: fspool.New(sourceContainer, newDir), Name: "srcpool0", Yield: seams.Yield}
		sp0.AfterRead = func(ReadEvent) {
			mu.Lock()
			reads++
			hit := reads == seams.CancelFirstAtRead
			mu.Unlock()
			if hit {
				cancel()
				if gate != nil {
					<-gate // the response is on its way...
					if seams.Yield != nil {
						seams.Yield("srcpool0.LateResponse")
					}
				}
			}
		}
		dctx.Pool = sp0
		res.Panic = Recover(func() {
			res.FirstErr = dctx.WritePatch(ctx0, &Writer{Name: "patch0", Yield: seams.Yield}, &Writer{Name: "sig0", Yield: seams.Yield})
		})
		cancel()
		res.FirstRan = true
		dctx.Pool = sp
		if res.Panic != "" {
			return res
		}
	}
	if seams.FailFirstOpenAt > 0 {
		sp0 := &Pool{Inner: fspool.New(sourceContainer, newDir), Name: "srcpool0", Yield: seams.Yield, FailOpen: seams.FailFirstOpenAt}
		dctx.Pool = sp0
		res.Panic = Recover(func() {
			res.FirstErr = dctx.WritePatch(ctx, pw, sw)
		})
		res.FirstRan = true
		dctx.Pool = sp
		if res.Panic != "" {
			return res
		}
		if res.FirstErr != nil {
			before := len(pw.Bytes()) + len(sw.Bytes())
			waitForFinalizers()
			res.LateBytes = len(pw.Bytes()) + len(sw.Bytes()) - before
		}
		pw.Reset()
		sw.Reset()
	}
	res.Panic = Recover(func() {
		res.Err = dctx.WritePatch(ctx, pw, sw)
	})
	openGate()
	if seams.Twice && res.Err == nil && res.Panic == "" {
		first := pw.Bytes()
		pw = &Writer{Name: "patch", Yield: seams.Yield}
		sw = &Writer{Name: "sig", Yield: seams.Yield}
		res.Panic = Recover(func() {
			res.Err = dctx.WritePatch(ctx, pw, sw)
		})
		res.SecondDiffers = res.Err == nil && res.Panic == "" && !bytes.Equal(first, pw.Bytes())
	}
	res.Patch, res.Sig = pw.Bytes(), sw.Bytes()
	if res.Err == nil && res.Panic == "" {
		// (after a failed or cancelled WritePatch its tasks may still be running and counting -
		// DESIGN section 6 -: the counts of a diff that failed are nobody's to read)
		res.Fresh, res.Reused = dctx.FreshBytes, dctx.ReusedBytes
	}
	return res
}

// NewSource wraps bytes as a savior.SeekSource through the simulated ReadSeeker.
func NewSource(data []byte, slice *Slicer, yield func(string)) (savior.SeekSource, *Source) {
	s := &Source{Data: data, Slice: slice, Yield: yield}
	return seeksource.NewWithSize(s, int64(len(data))), s
}

// ApplyOpts configures a patch application.
type ApplyOpts struct {
	PatchSlice   *Slicer
	PoolSlice    *Slicer // short reads from the old-build pool (the overlay bowl reads the old build through its own fspool, not through this one)
	Yield        func(string)
	Whitelist    map[int64]bool
	Save         patcher.SaveConsumer
	WrapPool     func(lake.Pool, *tlc.Container) lake.Pool // e.g. safekeeper
	WrapBowl     func(bowl.Bowl) bowl.Bowl
	BeforeCommit func() string // invariant evaluated right before Commit; non-empty = violation
	Checkpoint   *patcher.Checkpoint
	NoCommit     bool
	Consumer     *state.Consumer
	OnPool       func(p *Pool) // configure the simulated target pool (recording, OnRead hooks)
	// FirstAttemptCut > 0: before the real application, a first patcher runs over the patch cut
	// short at that length with the same pool and the same bowl object, and fails (end of stream)
	FirstAttemptCut int
	// OnStop is called when Resume returns ErrStop; a non-nil checkpoint makes the same patcher
	// resume from it with the same pool and bowl (the way the suite's with-saves test does)
	OnStop func() *patcher.Checkpoint
}

type ApplyResult struct {
	Stage     string // "new", "bowl", "resume", "commit", "ok"
	Err       error
	Panic     string
	Touched   int64
	Invariant string
	Source    *tlc.Container
	Target    *tlc.Container
	FirstErr  error // outcome of the cut-short first attempt (FirstAttemptCut)
	FirstRan  bool
	Stops     int // stop/resume cycles on the same patcher (OnStop)
}

// ApplyFresh applies patch with a fresh bowl: old build in oldDir, output into outDir.
func ApplyFresh(patch []byte, oldDir, outDir string, o ApplyOpts) *ApplyResult {
	return apply(patch, oldDir, outDir, "", o)
}

// ApplyInPlace applies patch onto dir (which holds the old build) through an overlay bowl
// staging into stageDir.
func ApplyInPlace(patch []byte, dir, stageDir string, o ApplyOpts) *ApplyResult {
	return apply(patch, dir, dir, stageDir, o)
}

func apply(patch []byte, oldDir, outDir, stageDir string, o ApplyOpts) *ApplyResult {
	res := &ApplyResult{Stage: "new"}
	res.Panic = Recover(func() {
		src, _ := NewSource(patch, o.PatchSlice, o.Yield)
		cons := o.Consumer
		if cons == nil {
			cons = Quiet()
		}
		p, err := patcher.New(src, cons)
		if err != nil {
			res.Err = err
			return
		}
		res.Source, res.Target = p.GetSourceContainer(), p.GetTargetContainer()
		sp := &Pool{Inner: fspool.New(p.GetTargetContainer(), oldDir), Name: "tgtpool", Slice: o.PoolSlice, Yield: o.Yield}
		if o.OnPool != nil {
			o.OnPool(sp)
		}
		var targetPool lake.Pool = sp
		if o.WrapPool != nil {
			targetPool = o.WrapPool(targetPool, p.GetTargetContainer())
		}
		res.Stage = "bowl"
		var b bowl.Bowl
		if stageDir == "" {
			b, err = bowl.NewFreshBowl(bowl.FreshBowlParams{
				TargetContainer: p.GetTargetContainer(),
				SourceContainer: p.GetSourceContainer(),
				TargetPool:      targetPool,
				OutputFolder:    outDir,
			})
		} else {
			b, err = bowl.NewOverlayBowl(bowl.OverlayBowlParams{
				TargetContainer: p.GetTargetContainer(),
				SourceContainer: p.GetSourceContainer(),
				OutputFolder:    outDir,
				StageFolder:     stageDir,
			})
		}
		if err != nil {
			res.Err = err
			return
		}
		if o.WrapBowl != nil {
			b = o.WrapBowl(b)
		}
		if o.Whitelist != nil {
			p.SetSourceIndexWhitelist(o.Whitelist)
		}
		if o.Save != nil {
			p.SetSaveConsumer(o.Save)
		}
		if o.FirstAttemptCut > 0 && o.FirstAttemptCut < len(patch) {
			res.Stage = "first-attempt"
			src0, _ := NewSource(patch[:o.FirstAttemptCut], nil, o.Yield)
			if p0, err0 := patcher.New(src0, cons); err0 == nil {
				if o.Whitelist != nil {
					p0.SetSourceIndexWhitelist(o.Whitelist)
				}
				res.FirstRan = true
				res.FirstErr = p0.Resume(nil, targetPool, b)
				if res.FirstErr == nil {
					// a patch cut short was applied without complaint: nothing to retry
					res.Stage = "first-attempt-accepted-truncated-patch"
					return
				}
			}
		}
		res.Stage = "resume"
		err = p.Resume(o.Checkpoint, targetPool, b)
		for o.OnStop != nil && errors.Cause(err) == patcher.ErrStop {
			c := o.OnStop()
			if c == nil {
				break
			}
			res.Stops++
			err = p.Resume(c, targetPool, b)
		}
		res.Touched = p.GetTouchedFiles()
		if err != nil {
			res.Err = err
			return
		}
		if o.BeforeCommit != nil {
			if msg := o.BeforeCommit(); msg != "" {
				res.Invariant = msg
			}
		}
		if o.NoCommit {
			res.Stage = "ok"
			return
		}
		res.Stage = "commit"
		err = b.Commit()
		if err != nil {
			res.Err = err
			return
		}
		res.Stage = "ok"
	})
	return res
}

// OptimizeKnobs are the optimizer's tuning parameters (C07).
type OptimizeKnobs struct {
	Partitions  int
	SuffixConc  int
	ForceMapAll bool
	SizeLimit   int64
	Compression *pwr.CompressionSettings
	// WithStats hands the optimizer a bsdiff.DiffStats to fill in (optional in rediff.Params)
	WithStats bool
	// FailSourceOpenAt > 0 (free-running only): the n-th open of a new-build file fails; the
	// result then says how many bytes reached the patch writer after Optimize had returned
	FailSourceOpenAt int
}

func GenKnobs(rt *rapid.T) OptimizeKnobs {
	k := OptimizeKnobs{
		Partitions:  rapid.IntRange(0, 16).Draw(rt, "partitions"),
		SuffixConc:  rapid.SampledFrom([]int{-1, 0, 1, 2, 3, 4, -2, -runtime.NumCPU() + 1, -runtime.NumCPU(), -runtime.NumCPU() - 1, -1000, 64}).Draw(rt, "suffixconc"),
		ForceMapAll: rapid.IntRange(0, 3).Draw(rt, "forcemapall") == 0,
		WithStats:   rapid.Bool().Draw(rt, "withbsdiffstats"),
	}
	switch rapid.IntRange(0, 4).Draw(rt, "sizelimit") {
	case 0:
		k.SizeLimit = int64(rapid.IntRange(1, 200*KiB).Draw(rt, "limit"))
	}
	if rapid.Bool().Draw(rt, "outcomp") {
		k.Compression = GenCompression(rt)
	}
	return k
}

type OptimizeResult struct {
	Patch     []byte
	Err       error
	Panic     string
	Mappings  int
	LateBytes int
	// Again runs Optimize once more on the same rediff context with the same pools (nil if the
	// first run failed)
	Again func() *OptimizeResult
}

// Optimize runs rediff over patch with old/new builds on disk.
func Optimize(patch []byte, oldDir, newDir string, k OptimizeKnobs, slice *Slicer, yield func(string)) *OptimizeResult {
	res := &OptimizeResult{}
	res.Panic = Recover(func() {
		src, _ := NewSource(patch, slice, yield)
		var stats *bsdiff.DiffStats
		if k.WithStats {
			stats = &bsdiff.DiffStats{}
		}
		rc, err := rediff.NewContext(rediff.Params{
			BsdiffStats:           stats,
			PatchReader:           src,
			RediffSizeLimit:       k.SizeLimit,
			SuffixSortConcurrency: k.SuffixConc,
			Partitions:            k.Partitions,
			Compression:           k.Compression,
			Consumer:              Quiet(),
			ForceMapAll:           k.ForceMapAll,
		})
		if err != nil {
			res.Err = fmt.Errorf("rediff.NewContext: %w", err)
			return
		}
		res.Mappings = len(rc.GetDiffMappings())
		out := &Writer{Name: "optpatch", Yield: yield}
		tp, sp := fspool.New(rc.GetTargetContainer(), oldDir), fspool.New(rc.GetSourceContainer(), newDir)
		var spUsed lake.Pool = sp
		if k.FailSourceOpenAt > 0 {
			spUsed = &Pool{Inner: sp, Name: "optsrc", FailOpen: k.FailSourceOpenAt}
		}
		err = rc.Optimize(rediff.OptimizeParams{
			TargetPool:  tp,
			SourcePool:  spUsed,
			PatchWriter: out,
		})
		if err != nil {
			res.Err = fmt.Errorf("Optimize: %w", err)
			if k.FailSourceOpenAt > 0 {
				before := len(out.Bytes())
				waitForFinalizers()
				res.LateBytes = len(out.Bytes()) - before
			}
			return
		}
		res.Patch = out.Bytes()
		res.Again = func() *OptimizeResult {
			r2 := &OptimizeResult{Mappings: res.Mappings}
			r2.Panic = Recover(func() {
				out2 := &Writer{Name: "optpatch2"}
				if err := rc.Optimize(rediff.OptimizeParams{TargetPool: tp, SourcePool: sp, PatchWriter: out2}); err != nil {
					r2.Err = fmt.Errorf("second Optimize on the same context: %w", err)
					return
				}
				r2.Patch = out2.Bytes()
			})
			return r2
		}
	})
	return res
}

// ---- reference wire decoding ----------------------------------------------------------------

// ComputeSig is pwr.ComputeSignature over a directory.
func ComputeSig(dir string) (*tlc.Container, []wsync.BlockHash, error) {
	c := Walk(dir)
	h, err := pwr.ComputeSignature(context.Background(), c, fspool.New(c, dir), Quiet())
	return c, h, err
}

// SigBytes serialises container+hashes as a wharf signature file (uses wharf's writer; only for
// feeding consumers such as the safekeeper, never as an oracle).
func SigBytes(c *tlc.Container, hashes []wsync.BlockHash, comp *pwr.CompressionSettings) []byte {
	var buf bytes.Buffer
	raw := wireNewWrite(&buf)
	Must(raw.WriteMagic(pwr.SignatureMagic), "sig magic")
	Must(raw.WriteMessage(&pwr.SignatureHeader{Compression: comp}), "sig header")
	w, err := pwr.CompressWire(raw, comp)
	Must(err, "sig compress")
	Must(w.WriteMessage(c), "sig container")
	for _, h := range hashes {
		Must(w.WriteMessage(&pwr.BlockHash{WeakHash: h.WeakHash, StrongHash: h.StrongHash}), "sig hash")
	}
	Must(w.Close(), "sig close")
	return buf.Bytes()
}

var _ = io.EOF

// zipLike rewrites a container's directory list the way tlc.WalkZip would have produced it: map
// order, and only directories that are not implied by something listed below them - or, half of the
// time each, those too.
func zipLike(c *tlc.Container, seed uint64) {
	r := NewRng(seed)
	// (WalkZip always lists the direct parent of a file or symlink: only directories that hold
	// nothing but directories can be missing)
	implied := func(p string) bool {
		pre := p + "/"
		for _, f := range c.Files {
			if path.Dir(f.Path) == p {
				return false
			}
		}
		for _, f := range c.Symlinks {
			if path.Dir(f.Path) == p {
				return false
			}
		}
		for _, f := range c.Dirs {
			if strings.HasPrefix(f.Path, pre) {
				return true
			}
		}
		return false
	}
	var kept []*tlc.Dir
	for _, d := range c.Dirs {
		if implied(d.Path) && r.Intn(2) == 0 {
			continue
		}
		kept = append(kept, d)
	}
	for i := len(kept) - 1; i > 0; i-- {
		j := r.Intn(i + 1)
		kept[i], kept[j] = kept[j], kept[i]
	}
	c.Dirs = kept
}

// waitForFinalizers lets the garbage collector run the finalizers that are due (they run on one
// goroutine, in the order they were queued: a sentinel queued after a collection is done when
// the others are). Real time is involved (at most 2 s), so this is for free-running code only.
func waitForFinalizers() {
	for round := 0; round < 2; round++ {
		runtime.GC()
		done := make(chan struct{})
		sentinel := new([64]byte)
		runtime.SetFinalizer(sentinel, func(*[64]byte) { close(done) })
		sentinel = nil
		runtime.GC()
		select {
		case <-done:
		case <-time.After(2 * time.Second):
		}
	}
}
