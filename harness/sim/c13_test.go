package sim

import (
	"bytes"
	"encoding/gob"
	"fmt"
	"io"
	"testing"

	"github.com/golang/protobuf/proto"
	"github.com/itchio/savior/seeksource"
	"github.com/itchio/wharf/pwr"
	"github.com/itchio/wharf/wire"
	"github.com/pkg/errors"
	"pgregory.net/rapid"
)

var msgSizes = []int{0, 0, 1, 2, 100, 127, 128, 129, 1000, 16383, 16384, 16385, 32*KiB - 16, 32*KiB - 1, 32 * KiB, 32*KiB + 1,
	64*KiB - 1, 64 * KiB, 64*KiB + 1, 128 * KiB, 128*KiB + 1, 256*KiB - 1, 300 * KiB, 512*KiB + 1, MiB}

func genMessages(rt *rapid.T) []*pwr.SyncOp {
	n := rapid.IntRange(0, 24).Draw(rt, "nmsgs")
	var out []*pwr.SyncOp
	big := 1
	for i := 0; i < n; i++ {
		sz := rapid.SampledFrom(msgSizes).Draw(rt, "msgsize")
		switch rapid.IntRange(0, 5).Draw(rt, "sizeclass") {
		case 0:
			// encoded size (2 bytes type + tag + length varint + payload) exactly at, or next to, a power of two
			k := rapid.IntRange(7, 17).Draw(rt, "encpow")
			over := 5
			if 1<<k-5 >= 16384 {
				over = 6
			}
			sz = 1<<k - over + rapid.IntRange(-1, 1).Draw(rt, "encd")
		case 1:
			sz = rapid.IntRange(0, 3000).Draw(rt, "anysize")
		}
		if big > 0 && rapid.IntRange(0, 39).Draw(rt, "huge") == 0 {
			sz = rapid.SampledFrom([]int{4*MiB - 1, 4 * MiB, 4*MiB + 1, 5 * MiB}).Draw(rt, "hugesize")
			big--
		}
		var data []byte
		switch rapid.IntRange(0, 2).Draw(rt, "msgkind") {
		case 0:
			data = Bytes(rapid.Uint64().Draw(rt, "msgseed"), sz)
		case 1:
			data = make([]byte, sz) // zeros: long compressed runs, few flate blocks
		default:
			data = LowEntropy(rapid.Uint64().Draw(rt, "msgseed2"), sz, 3)
		}
		op := &pwr.SyncOp{Type: pwr.SyncOp_DATA, Data: data}
		if sz == 0 {
			switch rapid.IntRange(0, 2).Draw(rt, "emptykind") {
			case 0:
				op = &pwr.SyncOp{} // encodes to zero bytes
			case 1:
				op = &pwr.SyncOp{Type: pwr.SyncOp_BLOCK_RANGE, FileIndex: int64(i), BlockIndex: 3, BlockSpan: 1 << 40}
			}
		}
		out = append(out, op)
	}
	return out
}

func writeStream(msgs []*pwr.SyncOp, comp *pwr.CompressionSettings) ([]byte, error) {
	var buf bytes.Buffer
	raw := wire.NewWriteContext(&buf)
	if err := raw.WriteMagic(pwr.PatchMagic); err != nil {
		return nil, err
	}
	if err := raw.WriteMessage(&pwr.PatchHeader{Compression: comp}); err != nil {
		return nil, err
	}
	cw, err := pwr.CompressWire(raw, comp)
	if err != nil {
		return nil, err
	}
	for _, m := range msgs {
		if err := cw.WriteMessage(m); err != nil {
			return nil, err
		}
	}
	if err := cw.Close(); err != nil {
		return nil, err
	}
	return buf.Bytes(), nil
}

// openStream builds the reader stack the way patcher.New does.
func openStream(stream []byte, slice *Slicer) (*wire.ReadContext, error) {
	src := seeksource.NewWithSize(&Source{Data: stream, Slice: slice}, int64(len(stream)))
	if _, err := src.Resume(nil); err != nil {
		return nil, err
	}
	raw := wire.NewReadContext(src)
	if err := raw.ExpectMagic(pwr.PatchMagic); err != nil {
		return nil, err
	}
	h := &pwr.PatchHeader{}
	if err := raw.ReadMessage(h); err != nil {
		return nil, err
	}
	return pwr.DecompressWire(raw, h.Compression)
}

type poppedCk struct {
	c   *wire.MessageReaderCheckpoint
	pos int
}

// TestC13: messages survive any compression setting; reader checkpoints resume exactly.
func TestC13(t *testing.T) {
	Ev.Rule = "generated message sequences (sizes 0 B .. 5 MiB straddling 32 KiB and powers of two; random / zero / low-entropy payloads) x {NONE, GZIP q-2..9, BROTLI q0..9(11)} x save-request patterns x read slicing; every popped checkpoint is gob round-tripped and resumed in a brand-new reader stack (enumerated per run); non-trivial = at least one checkpoint popped and resumed; distinct by (messages, compression, pattern)"
	Ev.Component("wire.WriteContext/ReadContext, pwr.CompressWire/DecompressWire, gzip+brotli compressors, savior seeksource/gzipsource/brotlisource", "real")
	Ev.Component("stream source (short reads), process boundary (gob round trip + new reader stack)", "simulated")
	Prop(t, "C13", func(rt *rapid.T) {
		msgs := genMessages(rt)
		if rapid.IntRange(0, 5).Draw(rt, "emptylast") == 0 {
			// the stream ends in a message that encodes to zero bytes: its last byte is a length prefix
			msgs = append(msgs, &pwr.SyncOp{})
			Ev.Probe("stream_ends_in_an_empty_message")
		}
		comp := GenCompression(rt)
		// the reader's owner need not collect a checkpoint as soon as there is one
		popMask := ^uint64(0)
		switch rapid.IntRange(0, 7).Draw(rt, "popmask") {
		case 0:
			popMask = 0
		case 1:
			popMask = rapid.Uint64().Draw(rt, "popmaskbits")
		}
		slice1 := drawSlicer(rt, "slice1")
		slice2 := drawSlicer(rt, "slice2")
		pattern := rapid.IntRange(0, 3).Draw(rt, "savepattern") // 0 always, 1 every k, 2 random subset, 3 single index
		k := rapid.IntRange(1, 5).Draw(rt, "savek")
		single := rapid.IntRange(0, len(msgs)).Draw(rt, "savesingle")
		subset := rapid.Uint64().Draw(rt, "savesubset")

		stream, err := writeStream(msgs, comp)
		if err != nil {
			Violation(rt, "C13/write-failed", "writing %d messages with %s failed: %v", len(msgs), CompString(comp), err)
			return
		}
		sample := func() interface{} {
			var sizes []int
			for _, m := range msgs {
				sizes = append(sizes, len(m.Data))
			}
			return map[string]interface{}{"message_payload_sizes": sizes, "compression": CompString(comp), "stream_bytes": len(stream),
				"save_pattern": pattern, "slicing": slicerDesc(slice1) + "/" + slicerDesc(slice2)}
		}

		// pass 1 + checkpoint collection in one go (the patcher's protocol: WantSave, Pop, Read)
		var popped []poppedCk
		rc, err := openStream(stream, slice1)
		if err != nil {
			Violation(rt, "C13/open-failed", "opening the stream (%s): %v", CompString(comp), err)
			return
		}
		got := &pwr.SyncOp{}
		want := func(i int) bool {
			switch pattern {
			case 0:
				return true
			case 1:
				return i%k == 0
			case 2:
				return subset>>(uint(i)%64)&1 == 1
			}
			return i == single
		}
		for i := 0; i <= len(msgs); i++ {
			if want(i) {
				rc.WantSave()
			}
			if popMask>>(uint(i)%64)&1 == 1 || i == len(msgs) {
				if c := rc.PopCheckpoint(); c != nil {
					popped = append(popped, poppedCk{c, i})
					Ev.ProbeIf(i == len(msgs) && popMask != ^uint64(0), "checkpoint_collected_late_after_the_last_message")
				}
			}
			var rerr error
			p := Recover(func() { rerr = rc.ReadMessage(got) })
			if p != "" {
				Violation(rt, "C13/read-panic", "ReadMessage %d panicked: %s", i, p)
				return
			}
			if i == len(msgs) {
				if errors.Cause(rerr) != io.EOF {
					Violation(rt, "C13/no-eof", "after %d messages ReadMessage returned %v, expected end-of-stream (%s)\n%v", len(msgs), rerr, CompString(comp), sample())
				}
				break
			}
			if rerr != nil {
				Violation(rt, "C13/read-error", "message %d of %d: %v (%s)\n%v", i, len(msgs), rerr, CompString(comp), sample())
				return
			}
			if !proto.Equal(got, msgs[i]) {
				Violation(rt, "C13/message-differs", "message %d read back differs (payload %d vs %d bytes) (%s)", i, len(got.Data), len(msgs[i].Data), CompString(comp))
				return
			}
		}
		if slice1 != nil {
			Ev.Fault("short_read_stream", slice1.Cuts)
		}

		// every popped checkpoint: serialize, new process, resume, read the remainder
		twice := rapid.IntRange(0, 2).Draw(rt, "resumetwice") == 0
		checkResume := func(pc poppedCk) bool {
			var gb bytes.Buffer
			if err := gob.NewEncoder(&gb).Encode(pc.c); err != nil {
				Violation(rt, "C13/checkpoint-not-serializable", "gob encode of checkpoint popped at message %d: %v", pc.pos, err)
				return false
			}
			c2 := &wire.MessageReaderCheckpoint{}
			if err := gob.NewDecoder(&gb).Decode(c2); err != nil {
				Violation(rt, "C13/checkpoint-not-deserializable", "gob decode of checkpoint popped at message %d: %v", pc.pos, err)
				return false
			}
			Ev.Fault("crash_restart_at_checkpoint", 1)
			if c2.SourceCheckpoint != nil {
				Ev.ProbeIf(c2.Offset > c2.SourceCheckpoint.Offset, "checkpoint_with_source_lagging(delta>0)")
			}
			// the deserialized checkpoint is used for two restarts in a row (a retry after the first
			// restart lost its connection, say): it must be as good the second time
			uses := 1
			if twice {
				uses = 2
			}
			for use := 1; use <= uses; use++ {
				rc2, err := openStream(stream, slice2)
				if err != nil {
					Violation(rt, "C13/reopen-failed", "%v", err)
					return false
				}
				var rerr error
				p := Recover(func() { rerr = rc2.Resume(c2) })
				if use == 2 {
					Ev.Probe("same_deserialized_checkpoint_resumed_from_twice")
				}
				if p != "" || rerr != nil {
					Violation(rt, "C13/resume-failed", "Resume from checkpoint popped before message %d (offset %d): %v %s (%s)\n%v", pc.pos, c2.Offset, rerr, p, CompString(comp), sample())
					return false
				}
				for i := pc.pos; i <= len(msgs); i++ {
					var rerr error
					p := Recover(func() { rerr = rc2.ReadMessage(got) })
					if p != "" {
						Violation(rt, "C13/read-panic", "after resume, ReadMessage %d panicked: %s", i, p)
						return false
					}
					if i == len(msgs) {
						if errors.Cause(rerr) != io.EOF {
							Violation(rt, "C13/resume-no-eof", "after resume at %d: end of stream expected, got %v", pc.pos, rerr)
							return false
						}
						break
					}
					if rerr != nil {
						Violation(rt, "C13/resume-read-error", "resumed before message %d (checkpoint offset %d), reading message %d: %v (%s)\n%v", pc.pos, c2.Offset, i, rerr, CompString(comp), sample())
						return false
					}
					if !proto.Equal(got, msgs[i]) {
						Violation(rt, "C13/resume-wrong-message", "resumed before message %d (checkpoint offset %d): message %d differs (payload %d vs %d bytes) (%s)\n%v", pc.pos, c2.Offset, i, len(got.Data), len(msgs[i].Data), CompString(comp), sample())
						return false
					}
				}
			}
			return true
		}
		for _, pc := range popped {
			if !checkResume(pc) {
				return
			}
		}
		// the reader object itself is resumed (Patcher.Resume on an existing patcher does this): saves
		// may have been requested and delivered but not collected when that happens, and whatever the
		// reader pops afterwards must still resume exactly
		if len(msgs) >= 2 && rapid.IntRange(0, 2).Draw(rt, "reuse") == 0 {
			rc3, err := openStream(stream, slice1)
			if err != nil {
				Violation(rt, "C13/open-failed", "opening the stream (%s): %v", CompString(comp), err)
				return
			}
			stopAt := rapid.IntRange(1, len(msgs)).Draw(rt, "reusestop")
			lazy := rapid.Uint64().Draw(rt, "lazypops")
			var early []poppedCk
			for i := 0; i < stopAt; i++ {
				rc3.WantSave()
				if lazy>>(uint(i)%64)&1 == 1 {
					if c := rc3.PopCheckpoint(); c != nil {
						early = append(early, poppedCk{c, i})
					}
				}
				if rerr := rc3.ReadMessage(got); rerr != nil || !proto.Equal(got, msgs[i]) {
					Violation(rt, "C13/read-error", "lazy-pop pass, message %d: %v (%s)", i, rerr, CompString(comp))
					return
				}
			}
			if rapid.Bool().Draw(rt, "reusefromstart") {
				// start over in place: Resume(nil), whatever save was in flight
				var rerr error
				if p := Recover(func() { rerr = rc3.Resume(nil) }); p != "" || rerr != nil {
					Violation(rt, "C13/resume-failed", "Resume(nil) on a reader that had read %d messages: %v %s (%s)", stopAt, rerr, p, CompString(comp))
					return
				}
				Ev.Probe("same_reader_started_over_with_a_save_in_flight")
				var later []poppedCk
				for i := 0; i <= len(msgs); i++ {
					if lazy>>(uint(i+7)%64)&1 == 1 {
						rc3.WantSave()
					}
					if c := rc3.PopCheckpoint(); c != nil {
						later = append(later, poppedCk{c, i})
					}
					if i == len(msgs) {
						break
					}
					var rerr error
					p := Recover(func() { rerr = rc3.ReadMessage(got) })
					if p != "" || rerr != nil || !proto.Equal(got, msgs[i]) {
						Violation(rt, "C13/resume-wrong-message", "same reader started over after %d messages: message %d wrong or failed: %v %s (%s)", stopAt, i, rerr, p, CompString(comp))
						return
					}
				}
				for _, pc := range later {
					if !checkResume(pc) {
						return
					}
				}
			} else if len(early) > 0 {
				back := early[rapid.IntRange(0, len(early)-1).Draw(rt, "reuseback")]
				var gb bytes.Buffer
				c2 := &wire.MessageReaderCheckpoint{}
				if err := gob.NewEncoder(&gb).Encode(back.c); err != nil || gob.NewDecoder(&gb).Decode(c2) != nil {
					Violation(rt, "C13/checkpoint-not-serializable", "gob round trip of checkpoint popped at message %d: %v", back.pos, err)
					return
				}
				var rerr error
				if p := Recover(func() { rerr = rc3.Resume(c2) }); p != "" || rerr != nil {
					Violation(rt, "C13/resume-failed", "Resume on the same reader (read up to message %d) from the checkpoint popped before message %d: %v %s (%s)", stopAt, back.pos, rerr, p, CompString(comp))
					return
				}
				Ev.Probe("same_reader_resumed_from_earlier_checkpoint")
				var later []poppedCk
				for i := back.pos; i < len(msgs); i++ {
					rc3.WantSave()
					if c := rc3.PopCheckpoint(); c != nil {
						later = append(later, poppedCk{c, i})
					}
					var rerr error
					p := Recover(func() { rerr = rc3.ReadMessage(got) })
					if p != "" || rerr != nil || !proto.Equal(got, msgs[i]) {
						Violation(rt, "C13/resume-wrong-message", "same reader resumed before message %d: message %d wrong or failed: %v %s (%s)", back.pos, i, rerr, p, CompString(comp))
						return
					}
				}
				for _, pc := range later {
					if !checkResume(pc) {
						return
					}
				}
			}
		}
		if slice2 != nil {
			Ev.Fault("short_read_stream_after_restart", slice2.Cuts)
		}
		Ev.ProbeIf(comp.Algorithm == pwr.CompressionAlgorithm_GZIP, "gzip_exercised")
		for i := 1; i < len(msgs); i++ {
			Ev.ProbeIf(len(msgs[i-1].Data) > 32*KiB && len(msgs[i].Data) < 1000, "small_message_after_one_larger_than_buffer")
		}
		Ev.ProbeIf(len(popped) > 0, "checkpoints_popped_runs")
		parts := [][]byte{[]byte(CompString(comp)), {byte(pattern), byte(k), byte(single)}}
		for _, m := range msgs {
			parts = append(parts, m.Data)
		}
		Ev.Eval(fnv64(parts...), len(popped) > 0, func() interface{} {
			m := sample().(map[string]interface{})
			var at []int
			for _, pc := range popped {
				at = append(at, pc.pos)
			}
			m["checkpoints_popped_before_message"] = at
			return m
		})
	})
}

var _ = fmt.Sprint
