package sim

import (
	"bytes"
	"fmt"
	"io"
	"testing"

	"github.com/golang/protobuf/proto"
	"github.com/itchio/headway/state"
	"github.com/itchio/wharf/bsdiff"
	"github.com/itchio/wharf/bsdiff/lrufile"
	"pgregory.net/rapid"
)

func genBsdiffPair(rt *rapid.T) (old, nw []byte, desc string) {
	if rapid.IntRange(0, 19).Draw(rt, "denselong") == 0 {
		// more 128 KiB blocks than the scanner has workers at few partitions (13-18 blocks), the first
		// blocks riddled with small differences (hundreds of matches), the rest nearly untouched
		nb := rapid.IntRange(13, 18).Draw(rt, "denseblocks")
		old = Bytes(rapid.Uint64().Draw(rt, "oseed"), nb*128*KiB+rapid.IntRange(0, 999).Draw(rt, "densetail"))
		dense := rapid.IntRange(1, 3).Draw(rt, "denseregion") * 128 * KiB
		every := rapid.SampledFrom([]int{200, 256, 300}).Draw(rt, "denseevery")
		mosaic := rapid.Bool().Draw(rt, "densemosaic")
		for o := 0; o < len(old); o++ {
			if o < dense && o%every == every-1 {
				if mosaic {
					nw = append(nw, old[len(old)-1-o]) // a byte from elsewhere instead
				}
				continue // (or the byte dropped)
			}
			nw = append(nw, old[o])
		}
		return old, nw, fmt.Sprintf("%d blocks, a difference every %d bytes in the first %d KiB", nb, every, dense/KiB)
	}
	switch rapid.IntRange(0, 6).Draw(rt, "pairkind") {
	case 6: // old file a whole number of cache chunks long, a small change shortly before its end
		old = Bytes(rapid.Uint64().Draw(rt, "oseed"), rapid.IntRange(1, 9).Draw(rt, "ochunks")*32*KiB)
		nw = append([]byte{}, old...)
		nw[len(nw)-1-rapid.IntRange(0, 300).Draw(rt, "tailoff")] ^= 0x41
		if rapid.Bool().Draw(rt, "tailgrow") {
			nw = append(nw, Bytes(7, rapid.IntRange(1, 5000).Draw(rt, "tailextra"))...)
		}
		return old, nw, "chunk-multiple old, change near its end"
	case 0, 1: // tiny strings over a small alphabet
		alpha := rapid.IntRange(1, 4).Draw(rt, "alpha")
		gen := func(label string) []byte {
			l := rapid.IntRange(0, 64).Draw(rt, label+"len")
			b := make([]byte, l)
			for i := range b {
				b[i] = 'a' + byte(rapid.IntRange(0, alpha-1).Draw(rt, label+"sym"))
			}
			return b
		}
		return gen("old"), gen("new"), "tiny"
	case 2: // related by edits, high entropy
		old = Bytes(rapid.Uint64().Draw(rt, "oseed"), rapid.SampledFrom([]int{0, 1, 15, 100, 5000, 128*KiB - 1, 128 * KiB, 128*KiB + 1, 300 * KiB, 700 * KiB}).Draw(rt, "olen"))
		nw, _, _ = applyEdits(rt, old, rapid.IntRange(0, 4).Draw(rt, "nedits"), "bs")
		return old, nw, "edited"
	case 3: // low entropy / periodic
		old = LowEntropy(rapid.Uint64().Draw(rt, "oseed"), rapid.IntRange(0, 200*KiB).Draw(rt, "olen"), rapid.IntRange(1, 4).Draw(rt, "alpha"))
		nw = LowEntropy(rapid.Uint64().Draw(rt, "nseed"), rapid.IntRange(0, 200*KiB).Draw(rt, "nlen"), rapid.IntRange(1, 4).Draw(rt, "alpha2"))
		if rapid.Bool().Draw(rt, "related") && len(old) > 0 {
			nw = append(append([]byte{}, old[len(old)/3:]...), nw[:len(nw)/4]...)
		}
		return old, nw, "low-entropy"
	case 4: // unrelated
		return Bytes(rapid.Uint64().Draw(rt, "oseed"), rapid.IntRange(0, 100*KiB).Draw(rt, "olen")), Bytes(rapid.Uint64().Draw(rt, "nseed"), rapid.IntRange(0, 300*KiB).Draw(rt, "nlen")), "unrelated"
	default: // rarely: larger
		old = Bytes(rapid.Uint64().Draw(rt, "oseed"), rapid.IntRange(MiB, 2*MiB).Draw(rt, "olen"))
		nw, _, _ = applyEdits(rt, old, 3, "bs")
		return old, nw, "large-edited"
	}
}

func cloneCtrl(m proto.Message) *bsdiff.Control {
	c := m.(*bsdiff.Control)
	return &bsdiff.Control{Add: append([]byte{}, c.Add...), Copy: append([]byte{}, c.Copy...), Seek: c.Seek, Eof: c.Eof}
}

// TestC12: a bsdiff series applied to the old file yields the new file, whatever the partition
// and concurrency settings; resuming from a saved old-offset gives the same remainder.
func TestC12(t *testing.T) {
	Ev.Rule = "generated (old,new): lengths 0..64 over alphabets of 1-4 symbols, edited high-entropy data up to 2 MiB, low-entropy/periodic data, unrelated data; partitions 0..16; scheduled sort/worker/dispatcher/collector goroutines; reference applier + real applier + resume from every k-th message; non-trivial = both non-empty; distinct by (old,new,partitions,schedule log)"
	Ev.Component("bsdiff.DiffContext.Do (PSA, analyzeBlock workers, dispatcher, collector, writeMessages), PatchContext.Patch, IndividualPatchContext.Apply, lrufile", "real")
	Ev.Component("old/new readers (short reads), message sink, goroutine schedule", "simulated")
	Prop(t, "C12", func(rt *rapid.T) {
		// contexts are meant to be reused from one file to the next (rediff and the patcher do): a case
		// is a short sequence of pairs going through the same DiffContext and the same PatchContexts
		npairs := rapid.IntRange(1, 3).Draw(rt, "npairs")
		sharedOld = &mutableReader{size: -1}
		sharedDC := &bsdiff.DiffContext{}
		sharedPC, sharedPC2 := bsdiff.NewPatchContext(), bsdiff.NewPatchContext()
		var prevOld []byte
		for pi := 0; pi < npairs; pi++ {
			if !c12One(t, rt, pi, sharedDC, sharedPC, sharedPC2, &prevOld) {
				return
			}
		}
	})
}

func c12One(t *testing.T, rt *rapid.T, pi int, sharedDC *bsdiff.DiffContext, sharedPC, sharedPC2 *bsdiff.PatchContext, prevOld *[]byte) bool {
	{
		old, nw, kind := genBsdiffPair(rt)
		if pi > 0 && len(*prevOld) > 0 && rapid.IntRange(0, 2).Draw(rt, "relatedtoprev") == 0 {
			// a smaller old file after a bigger one, and new content that recurs in the earlier old file
			po := *prevOld
			cut := rapid.IntRange(0, len(po)/2).Draw(rt, "prevcut")
			old = append([]byte{}, po[:cut]...)
			a := rapid.IntRange(cut, len(po)-1).Draw(rt, "preva")
			nw = append(append([]byte{}, old...), po[a:min(len(po), a+rapid.IntRange(1, 5000).Draw(rt, "prevl"))]...)
			kind = "smaller-old-after-bigger"
		}
		if pi > 0 && len(*prevOld) > 0 && kind != "smaller-old-after-bigger" && rapid.IntRange(0, 2).Draw(rt, "samesizeasprev") == 0 {
			// the previous old file rewritten in place: same size, some bytes changed
			old = append([]byte{}, (*prevOld)...)
			for f := 0; f < 1+len(old)/20000; f++ {
				old[rapid.IntRange(0, len(old)-1).Draw(rt, "rewriteoff")] ^= 0x5a
			}
			nw, _, _ = applyEdits(rt, old, rapid.IntRange(0, 2).Draw(rt, "rewriteedits"), "rw")
			kind = "previous-old-rewritten-in-place"
		}
		*prevOld = old
		partitions := rapid.IntRange(0, 16).Draw(rt, "partitions")
		_ = pi
		conc := rapid.IntRange(-1, 4).Draw(rt, "suffixconc")
		spec := drawSched(rt)
		rmode := rapid.IntRange(0, 3).Draw(rt, "readmode")
		setup := fmt.Sprintf("%s old %d B new %d B partitions %d", kind, len(old), len(nw), partitions)

		// the readers may be seekable and not at their beginning: a payload behind a header that the
		// caller has read already. What is diffed is what they deliver from where they are.
		oldR, newR := NewSliceReader(old, rmode, spec.Seed, false, rmode == 2), NewSliceReader(nw, rmode, spec.Seed+1, false, rmode == 3)
		if rapid.IntRange(0, 3).Draw(rt, "preadvanced") == 0 {
			ho, hn := rapid.IntRange(0, 5000).Draw(rt, "oldheader"), rapid.IntRange(0, 5000).Draw(rt, "newheader")
			oldR = NewSliceReader(append(Bytes(71, ho), old...), rmode, spec.Seed, false, rmode == 2)
			newR = NewSliceReader(append(Bytes(72, hn), nw...), rmode, spec.Seed+1, false, rmode == 3)
			oldR.Seek(int64(ho), io.SeekStart)
			newR.Seek(int64(hn), io.SeekStart)
			Ev.ProbeIf(ho+hn > 0, "seekable_inputs_positioned_behind_a_header")
		}
		var msgs []*bsdiff.Control
		var derr error
		s := &Sched{Spec: spec, MaxSteps: 400000}
		// the caller's progress callback takes its time, too (it is a park point like any other)
		progressConsumer := Quiet()
		if rapid.Bool().Draw(rt, "slowprogress") {
			progressConsumer = &state.Consumer{OnProgress: func(float64) { s.Yield("bsdiff.progress") }}
		}
		s.Run(t, func() {
			dc := sharedDC
			dc.Partitions, dc.SuffixSortConcurrency = partitions, conc
			derr = dc.Do(oldR, newR, func(m proto.Message) error {
				s.Yield("sink")
				msgs = append(msgs, cloneCtrl(m))
				return nil
			}, progressConsumer)
		})
		if s.BudgetExceeded {
			return false
		}
		if s.Stuck {
			Violation(rt, "C12/differ-stuck", "bsdiff Do deadlocked (%s)\n%s\ntrace tail:\n%s", setup, s.StuckStacks, joinLines(tail(s.Log, 40), 40))
			return false
		}
		if s.Panic != "" {
			Violation(rt, "C12/differ-panic", "bsdiff Do panicked (%s): %s", setup, s.Panic)
			return false
		}
		if derr != nil {
			Violation(rt, "C12/differ-error", "bsdiff Do returned %v (%s)", derr, setup)
			return false
		}
		// exactly one Eof, at the end
		for i, m := range msgs {
			if m.Eof != (i == len(msgs)-1) {
				Violation(rt, "C12/eof-message", "message %d of %d has Eof=%v (%s)", i, len(msgs), m.Eof, setup)
				return false
			}
		}
		if len(msgs) == 0 {
			Violation(rt, "C12/eof-message", "no message at all, expected an end-of-series message (%s)", setup)
			return false
		}
		total := 0
		for _, m := range msgs {
			total += len(m.Add) + len(m.Copy)
		}
		if total != len(nw) {
			Violation(rt, "C12/length-sum", "add+copy lengths sum to %d, new has %d bytes (%s)", total, len(nw), setup)
			return false
		}
		ref, _, rerr := RefBsdiffApply(msgs, old, 0)
		if rerr != nil {
			Violation(rt, "C12/add-outside-old", "%v (%s)", rerr, setup)
			return false
		}
		if !bytes.Equal(ref, nw) {
			Violation(rt, "C12/wrong-reconstruction", "reference application differs from new at %d (len %d vs %d) (%s)", firstDiff(ref, nw), len(ref), len(nw), setup)
			return false
		}
		// real applier; the old file is handed over through one long-lived reader object whose content
		// is replaced between pairs when the size happens to be the same (a file rewritten in place)
		var out bytes.Buffer
		i := 0
		pc := sharedPC
		var perr error
		var oldReader io.ReadSeeker = bytes.NewReader(old)
		if sharedOld.size == len(old) && len(old) > 0 {
			copy(sharedOld.b, old)
			oldReader = sharedOld
			Ev.Probe("same_reader_object_new_content_same_size")
		} else {
			sharedOld.b, sharedOld.size, sharedOld.pos = append([]byte{}, old...), len(old), 0
		}
		if len(old) > 40000 && rapid.IntRange(0, 3).Draw(rt, "refusedfirst") == 0 {
			// the same context has just refused a control of some broken series: an add that runs
			// past the end of the old file after a first buffer-full of it went through
			var sink bytes.Buffer
			var herr error
			hp := Recover(func() {
				hipc, err := pc.NewIndividualPatchContext(bytes.NewReader(old), int64(len(old)-rapid.SampledFrom([]int{32768, 33000, 39999}).Draw(rt, "refusedleft")), &sink)
				if err != nil {
					herr = err
					return
				}
				herr = hipc.Apply(&bsdiff.Control{Add: make([]byte, rapid.SampledFrom([]int{40000, 70000}).Draw(rt, "refusedadd"))})
			})
			if hp != "" {
				Violation(rt, "C12/hostile-control-panic", "an add running past the end of the old file panicked: %s (%s)", hp, setup)
				return false
			}
			if herr == nil {
				Violation(rt, "C12/hostile-control-accepted", "an add of more bytes than the old file has left was applied without error (%s)", setup)
				return false
			}
			Ev.Probe("patch_context_reused_after_a_refused_control")
		}
		if p := Recover(func() {
			perr = pc.Patch(oldReader, &out, int64(len(nw)), func(m proto.Message) error {
				if i >= len(msgs) {
					return io.EOF
				}
				c := m.(*bsdiff.Control)
				*c = bsdiff.Control{Add: msgs[i].Add, Copy: msgs[i].Copy, Seek: msgs[i].Seek, Eof: msgs[i].Eof}
				i++
				return nil
			})
		}); p != "" || perr != nil {
			Violation(rt, "C12/patch-failed", "PatchContext.Patch: %v %s (%s)", perr, p, setup)
			return false
		}
		if !bytes.Equal(out.Bytes(), nw) {
			Violation(rt, "C12/patch-wrong", "PatchContext.Patch output differs from new at %d (%s)", firstDiff(out.Bytes(), nw), setup)
			return false
		}
		// resume: record (old offset, bytes written) before every message with the real applier,
		// then restart from every k-th message in a fresh context
		type mark struct {
			oldOff  int64
			written int
		}
		var marks []mark
		var full bytes.Buffer
		pc2 := sharedPC2
		ipc, err := pc2.NewIndividualPatchContext(bytes.NewReader(old), 0, &full)
		Must(err, "NewIndividualPatchContext")
		for _, m := range msgs[:len(msgs)-1] {
			marks = append(marks, mark{ipc.OldOffset, full.Len()})
			if aerr := ipc.Apply(m); aerr != nil {
				Violation(rt, "C12/apply-failed", "Apply: %v (%s)", aerr, setup)
				return false
			}
		}
		stride := 1 + len(marks)/12
		resumes := 0
		for j := 0; j < len(marks); j += stride {
			var rest bytes.Buffer
			pc3 := bsdiff.NewPatchContext()
			ipc3, err := pc3.NewIndividualPatchContext(bytes.NewReader(old), marks[j].oldOff, &rest)
			Must(err, "NewIndividualPatchContext(resume)")
			for _, m := range msgs[j : len(msgs)-1] {
				if aerr := ipc3.Apply(m); aerr != nil {
					Violation(rt, "C12/resume-apply-failed", "resumed at message %d (old offset %d): %v (%s)", j, marks[j].oldOff, aerr, setup)
					return false
				}
			}
			if !bytes.Equal(rest.Bytes(), nw[marks[j].written:]) {
				Violation(rt, "C12/resume-wrong", "resumed at message %d (old offset %d, %d bytes already written): remainder differs at %d (%s)", j, marks[j].oldOff, marks[j].written, firstDiff(rest.Bytes(), nw[marks[j].written:]), setup)
				return false
			}
			resumes++
			Ev.Fault("resume_from_saved_old_offset", 1)
		}
		Ev.ProbeIf(len(nw) > 0 && len(nw) < partitions, "new_shorter_than_partitions")
		Ev.ProbeIf(len(old) == 0 && len(nw) > 0, "old_empty")
		Ev.ProbeIf(len(old) > 0 && len(old) <= partitions+1, "old_not_longer_than_partitions")
		Ev.ProbeIf(s.Leaked, "goroutines_left_blocked_after_return")
		Ev.Eval(fnv64(old, nw, []byte{byte(partitions)})^s.LogHash(), len(old) > 0 && len(nw) > 0, func() interface{} {
			return map[string]interface{}{"setup": setup, "messages": len(msgs), "resumes": resumes, "sched_steps": s.Steps, "schedule": s.Trace(30)}
		})
	}
	return true
}

// mutableReader is a ReadSeeker over a buffer whose content the harness may replace.
type mutableReader struct {
	b    []byte
	size int
	pos  int64
}

var sharedOld = &mutableReader{size: -1}

func (m *mutableReader) Read(p []byte) (int, error) {
	if m.pos >= int64(len(m.b)) {
		return 0, io.EOF
	}
	n := copy(p, m.b[m.pos:])
	m.pos += int64(n)
	return n, nil
}

func (m *mutableReader) Seek(off int64, whence int) (int64, error) {
	switch whence {
	case io.SeekStart:
		m.pos = off
	case io.SeekCurrent:
		m.pos += off
	case io.SeekEnd:
		m.pos = int64(len(m.b)) + off
	}
	if m.pos < 0 {
		return 0, fmt.Errorf("negative seek")
	}
	return m.pos, nil
}

// TestC12Lru: the chunked LRU read cache behaves like a plain in-memory reader for every
// sequence of seeks and reads, at every geometry.
func TestC12Lru(t *testing.T) {
	Ev.Property = "C12"
	Prop(t, "C12", func(rt *rapid.T) {
		chunk := int64(rapid.SampledFrom([]int{1, 2, 3, 7, 16, 100, 4096, 32 * KiB, 64 * KiB}).Draw(rt, "chunk"))
		entries := rapid.IntRange(1, 8).Draw(rt, "entries")
		size := rapid.SampledFrom([]int{0, 1, 2, 10, 100, 1000, 4095, 4096, 4097, 100 * KiB}).Draw(rt, "size")
		if chunk < 16 && size > 1000 {
			size = 1000
		}
		lf, err := lrufile.New(chunk, entries)
		if err != nil {
			Violation(rt, "C12/lru-new", "lrufile.New(%d,%d): %v", chunk, entries, err)
			return
		}
		// the patcher keeps one cache for a whole patch and Resets it onto each old file in turn
		nfiles := rapid.SampledFrom([]int{1, 1, 2, 3, 5}).Draw(rt, "nfiles")
		var script []string
		var data []byte
		for fi := 0; fi < nfiles; fi++ {
			if fi > 0 {
				size = rapid.SampledFrom([]int{0, 1, 10, 100, 1000, 4097, 100 * KiB}).Draw(rt, "size2")
				if chunk < 16 && size > 1000 {
					size = 1000
				}
				script = append(script, fmt.Sprintf("reset(file of %d bytes)", size))
				Ev.Probe("cache_reset_onto_another_file")
			}
			data = Bytes(rapid.Uint64().Draw(rt, "seed"), size)
			// the old file is read through a pool reader: it may return fewer bytes than asked for at
			// any time, and may deliver EOF together with the last bytes
			var rs io.ReadSeeker = bytes.NewReader(data)
			if sm := rapid.IntRange(0, 4).Draw(rt, "oldslicing"); sm > 0 {
				rs = NewSliceReader(data, sm, rapid.Uint64().Draw(rt, "oldsliceseed"), false, rapid.Bool().Draw(rt, "oldeofwith"))
				Ev.Probe("old_file_reader_returns_short_reads")
			}
			// one read of the old file may fail (a transient I/O error); the caller seeks back and reads
			// again: what it gets then must be the file's content, not whatever the failed fill left
			flaky := &flakyRS{ReadSeeker: rs, FailAt: -1}
			if rapid.IntRange(0, 3).Draw(rt, "flaky") == 0 {
				flaky.FailAt = rapid.IntRange(1, 6).Draw(rt, "flakyat")
				// (a reader's own error may be any value, io.ErrUnexpectedEOF included: a connection
				// that went away in the middle of a response)
				flaky.Err = rapid.SampledFrom([]error{ErrInjected, ErrInjected, io.ErrUnexpectedEOF}).Draw(rt, "flakyerr")
				flaky.Partial = rapid.Bool().Draw(rt, "flakypartial")
			}
			rs = flaky
			if err := lf.Reset(rs); err != nil {
				Violation(rt, "C12/lru-reset", "Reset: %v", err)
				return
			}
			model := bytes.NewReader(data)
			nops := rapid.IntRange(1, 60).Draw(rt, "nops")
			for i := 0; i < nops; i++ {
				if rapid.IntRange(0, 2).Draw(rt, "op") == 0 {
					whence := rapid.SampledFrom([]int{io.SeekStart, io.SeekCurrent, io.SeekEnd}).Draw(rt, "whence")
					cur, _ := model.Seek(0, io.SeekCurrent)
					var off int64
					switch whence {
					case io.SeekStart:
						off = int64(rapid.IntRange(0, size).Draw(rt, "soff"))
					case io.SeekCurrent:
						off = int64(rapid.IntRange(0, size).Draw(rt, "soff")) - cur
					default:
						off = -int64(rapid.IntRange(0, size).Draw(rt, "soff"))
					}
					script = append(script, fmt.Sprintf("seek(%d,%d)", off, whence))
					a, aerr := lf.Seek(off, whence)
					b, berr := model.Seek(off, whence)
					if (aerr != nil) != (berr != nil) || (aerr == nil && a != b) {
						Violation(rt, "C12/lru-seek", "chunk %d entries %d size %d: %v -> lrufile (%d,%v) vs plain reader (%d,%v)", chunk, entries, size, script, a, aerr, b, berr)
						return
					}
					continue
				}
				n := rapid.SampledFrom([]int{1, 2, 3, 10, 100, int(chunk), int(chunk) + 1, 3*int(chunk) + 1, 40000}).Draw(rt, "rlen")
				script = append(script, fmt.Sprintf("read(%d)", n))
				pa, pb := make([]byte, n), make([]byte, n)
				var na int
				var ea error
				posBefore, _ := model.Seek(0, io.SeekCurrent)
				firedBefore := flaky.Fired
				p := Recover(func() { na, ea = lf.Read(pa) })
				if p == "" && ea != nil && flaky.Fired > firedBefore {
					// the injected error: go back to where the read started and read again
					Ev.Fault("transient_read_error_on_old_file", 1)
					script = append(script, "(read failed: injected error; seek back, read again)")
					if _, serr := lf.Seek(posBefore, io.SeekStart); serr != nil {
						Violation(rt, "C12/lru-seek", "seek back after a failed read: %v", serr)
						return
					}
					p = Recover(func() { na, ea = lf.Read(pa) })
				}
				if p != "" {
					Violation(rt, "C12/lru-panic", "chunk %d entries %d size %d: %v panicked: %s", chunk, entries, size, script, p)
					return
				}
				nb, eb := io.ReadFull(model, pb) // the cache fills the buffer unless the file ends
				if eb == io.ErrUnexpectedEOF {
					eb = io.EOF
				}
				if na != nb || !bytes.Equal(pa[:na], pb[:nb]) {
					Violation(rt, "C12/lru-read", "chunk %d entries %d size %d: %v returned %d bytes, plain reader %d (equal prefix %d)", chunk, entries, size, script, na, nb, firstDiff(pa[:na], pb[:nb]))
					return
				}
				// EOF may be reported by this call or by the next one, never an error other than EOF
				if ea != nil && ea != io.EOF {
					Violation(rt, "C12/lru-read-error", "chunk %d entries %d size %d: %v returned error %v", chunk, entries, size, script, ea)
					return
				}
				if ea == io.EOF && eb == nil {
					// lrufile says EOF although the model still had all requested bytes and more may follow:
					// allowed only if the position is exactly at the end
					if pos, _ := model.Seek(0, io.SeekCurrent); pos != int64(size) {
						Violation(rt, "C12/lru-early-eof", "chunk %d entries %d size %d: %v reported EOF at position %d", chunk, entries, size, script, pos)
						return
					}
				}
			}
		}
		Ev.ProbeIf(int64(size) > chunk*int64(entries), "file_larger_than_cache(eviction)")
		Ev.Eval(fnv64(data, []byte(fmt.Sprint(chunk, entries, script))), int64(size) > chunk, func() interface{} {
			return map[string]interface{}{"chunk": chunk, "entries": entries, "size": size, "script": script}
		})
	})
}

// flakyRS fails its FailAt-th Read (1-based) with ErrInjected, once.
type flakyRS struct {
	io.ReadSeeker
	FailAt int
	// Err is the error value of the failure (default ErrInjected); Partial: the failing read
	// delivers half of what was asked for along with it
	Err     error
	Partial bool
	reads   int
	Fired   int
}

func (f *flakyRS) Read(p []byte) (int, error) {
	f.reads++
	if f.reads == f.FailAt {
		f.Fired++
		err := f.Err
		if err == nil {
			err = ErrInjected
		}
		if f.Partial && len(p) > 1 {
			n, _ := f.ReadSeeker.Read(p[:len(p)/2])
			return n, err
		}
		return 0, err
	}
	return f.ReadSeeker.Read(p)
}
