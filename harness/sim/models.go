package sim

import (
	"bytes"
	"compress/gzip"
	"crypto/md5"
	"encoding/binary"
	"fmt"
	"io"

	"github.com/golang/protobuf/proto"
	brotlidec "github.com/itchio/go-brotli/dec"
	"github.com/itchio/lake/tlc"
	"github.com/itchio/wharf/bsdiff"
	"github.com/itchio/wharf/pwr"
	"github.com/itchio/wharf/pwr/overlay"
	"github.com/itchio/wharf/wire"
)

func wireNewWrite(w io.Writer) *wire.WriteContext { return wire.NewWriteContext(w) }

// Magic numbers, written out from the format documentation (pwr/constants.go comments), not
// imported, so that a changed constant is noticed.
const (
	MagicPatch     = 0xFEF5F00
	MagicSignature = 0xFEF5F01
	MagicWounds    = 0xFEF5F03
	MagicOverlay   = 0xFEF6F00
)

// ---- independent wire decoding ---------------------------------------------------------------

// RefReader decodes wharf's framing (uvarint length + protobuf body) without wire.ReadContext.
type RefReader struct {
	r   *bytes.Reader
	Off int64
}

func NewRefReader(b []byte) *RefReader { return &RefReader{r: bytes.NewReader(b)} }

func (rr *RefReader) Magic() (int32, error) {
	var m int32
	err := binary.Read(rr.r, binary.LittleEndian, &m)
	return m, err
}

// Next decodes the next message into msg. io.EOF exactly at a message boundary means end.
func (rr *RefReader) Next(msg proto.Message) error {
	l, err := binary.ReadUvarint(rr.r)
	if err != nil {
		return err
	}
	if l > uint64(rr.r.Len()) {
		return io.ErrUnexpectedEOF
	}
	buf := make([]byte, l)
	if _, err := io.ReadFull(rr.r, buf); err != nil {
		return err
	}
	msg.Reset()
	return proto.Unmarshal(buf, msg)
}

// Rest returns the undecoded remainder.
func (rr *RefReader) Rest() []byte {
	b := make([]byte, rr.r.Len())
	rr.r.Read(b)
	return b
}

func refDecompress(b []byte, c *pwr.CompressionSettings) ([]byte, error) {
	if c == nil {
		return nil, fmt.Errorf("no compression settings in header")
	}
	switch c.Algorithm {
	case pwr.CompressionAlgorithm_NONE:
		return b, nil
	case pwr.CompressionAlgorithm_GZIP:
		zr, err := gzip.NewReader(bytes.NewReader(b))
		if err != nil {
			return nil, err
		}
		return io.ReadAll(zr)
	case pwr.CompressionAlgorithm_BROTLI:
		return io.ReadAll(brotlidec.NewBrotliReader(bytes.NewReader(b)))
	}
	return nil, fmt.Errorf("unknown compression %v", c.Algorithm)
}

// RefFileSeries is one per-file series of a decoded patch.
type RefFileSeries struct {
	Header *pwr.SyncHeader
	Ops    []*pwr.SyncOp     // rsync series (without the end marker)
	Bsdiff *pwr.BsdiffHeader // bsdiff series
	Ctrl   []*bsdiff.Control // without the Eof control
}

// RefPatch is an independently decoded patch.
type RefPatch struct {
	Header *pwr.PatchHeader
	Target *tlc.Container
	Source *tlc.Container
	Files  []*RefFileSeries
	Body   []byte // decompressed body (after the header)
}

// DecodePatch decodes a complete, valid patch.
func DecodePatch(b []byte) (*RefPatch, error) {
	rr := NewRefReader(b)
	m, err := rr.Magic()
	if err != nil || m != MagicPatch {
		return nil, fmt.Errorf("patch magic: %x %v", m, err)
	}
	p := &RefPatch{Header: &pwr.PatchHeader{}}
	if err := rr.Next(p.Header); err != nil {
		return nil, fmt.Errorf("patch header: %w", err)
	}
	body, err := refDecompress(rr.Rest(), p.Header.Compression)
	if err != nil {
		return nil, fmt.Errorf("patch body decompress: %w", err)
	}
	p.Body = body
	br := NewRefReader(body)
	p.Target, p.Source = &tlc.Container{}, &tlc.Container{}
	if err := br.Next(p.Target); err != nil {
		return nil, fmt.Errorf("target container: %w", err)
	}
	if err := br.Next(p.Source); err != nil {
		return nil, fmt.Errorf("source container: %w", err)
	}
	for i := range p.Source.Files {
		fs := &RefFileSeries{Header: &pwr.SyncHeader{}}
		if err := br.Next(fs.Header); err != nil {
			return nil, fmt.Errorf("file %d sync header: %w", i, err)
		}
		switch fs.Header.Type {
		case pwr.SyncHeader_RSYNC:
			for {
				op := &pwr.SyncOp{}
				if err := br.Next(op); err != nil {
					return nil, fmt.Errorf("file %d op: %w", i, err)
				}
				if op.Type == pwr.SyncOp_HEY_YOU_DID_IT {
					break
				}
				fs.Ops = append(fs.Ops, op)
			}
		case pwr.SyncHeader_BSDIFF:
			fs.Bsdiff = &pwr.BsdiffHeader{}
			if err := br.Next(fs.Bsdiff); err != nil {
				return nil, fmt.Errorf("file %d bsdiff header: %w", i, err)
			}
			for {
				c := &bsdiff.Control{}
				if err := br.Next(c); err != nil {
					return nil, fmt.Errorf("file %d ctrl: %w", i, err)
				}
				if c.Eof {
					break
				}
				fs.Ctrl = append(fs.Ctrl, c)
			}
			op := &pwr.SyncOp{}
			if err := br.Next(op); err != nil {
				return nil, fmt.Errorf("file %d sentinel: %w", i, err)
			}
			if op.Type != pwr.SyncOp_HEY_YOU_DID_IT {
				return nil, fmt.Errorf("file %d: sentinel is %v", i, op.Type)
			}
		default:
			return nil, fmt.Errorf("file %d: unknown series %v", i, fs.Header.Type)
		}
		p.Files = append(p.Files, fs)
	}
	if br.r.Len() != 0 {
		return nil, fmt.Errorf("%d trailing bytes after last series", br.r.Len())
	}
	return p, nil
}

// RefSig is an independently decoded signature stream.
type RefSig struct {
	Header    *pwr.SignatureHeader
	Container *tlc.Container
	Hashes    []*pwr.BlockHash
}

func DecodeSignature(b []byte) (*RefSig, error) {
	rr := NewRefReader(b)
	m, err := rr.Magic()
	if err != nil || m != MagicSignature {
		return nil, fmt.Errorf("signature magic: %x %v", m, err)
	}
	s := &RefSig{Header: &pwr.SignatureHeader{}, Container: &tlc.Container{}}
	if err := rr.Next(s.Header); err != nil {
		return nil, err
	}
	body, err := refDecompress(rr.Rest(), s.Header.Compression)
	if err != nil {
		return nil, err
	}
	br := NewRefReader(body)
	if err := br.Next(s.Container); err != nil {
		return nil, err
	}
	for {
		h := &pwr.BlockHash{}
		err := br.Next(h)
		if err == io.EOF {
			break
		}
		if err != nil {
			return nil, err
		}
		s.Hashes = append(s.Hashes, h)
	}
	return s, nil
}

// DecodeWounds decodes a .pww file.
func DecodeWounds(b []byte) (*tlc.Container, []*pwr.Wound, error) {
	rr := NewRefReader(b)
	m, err := rr.Magic()
	if err != nil || m != MagicWounds {
		return nil, nil, fmt.Errorf("wounds magic: %x %v", m, err)
	}
	if err := rr.Next(&pwr.WoundsHeader{}); err != nil {
		return nil, nil, err
	}
	c := &tlc.Container{}
	if err := rr.Next(c); err != nil {
		return nil, nil, err
	}
	var ws []*pwr.Wound
	for {
		w := &pwr.Wound{}
		err := rr.Next(w)
		if err == io.EOF {
			break
		}
		if err != nil {
			return c, ws, err
		}
		ws = append(ws, w)
	}
	return c, ws, nil
}

// ---- reference signature ---------------------------------------------------------------------

// RefHash is one expected block hash.
type RefHash struct {
	FileIndex  int64
	BlockIndex int64
	Weak       uint32
	Strong     []byte
	ShortSize  int32
}

// refWeak is the rsync rolling checksum as defined in Tridgell's thesis with M = 2^16:
// a = sum x_i mod M, b = sum (l - i) x_i mod M (i from 0), s = a + 2^16 b.
func refWeak(block []byte) uint32 {
	var a, b uint32
	l := uint32(len(block))
	for i, x := range block {
		a += uint32(x)
		b += (l - uint32(i)) * uint32(x)
	}
	return (a & 0xffff) | ((b & 0xffff) << 16)
}

// RefSignatureOf computes the expected signature of files (in container order): one hash per
// 64 KiB block, a shorter final block, and one hash (of the empty string) for an empty file.
func RefSignatureOf(files [][]byte) []RefHash {
	var out []RefHash
	for fi, data := range files {
		if len(data) == 0 {
			s := md5.Sum(nil)
			out = append(out, RefHash{FileIndex: int64(fi), BlockIndex: 0, Weak: refWeak(nil), Strong: s[:], ShortSize: 0})
			continue
		}
		for bi, off := 0, 0; off < len(data); bi, off = bi+1, off+BlockSize {
			end := off + BlockSize
			short := int32(0)
			if end > len(data) {
				end = len(data)
				short = int32(end - off)
			}
			s := md5.Sum(data[off:end])
			out = append(out, RefHash{FileIndex: int64(fi), BlockIndex: int64(bi), Weak: refWeak(data[off:end]), Strong: s[:], ShortSize: short})
		}
	}
	return out
}

// ---- reference appliers ----------------------------------------------------------------------

// RefRsyncApply replays rsync ops against old files with explicit bounds checks.
func RefRsyncApply(ops []RefOp, old [][]byte, blockSize int) ([]byte, error) {
	var out []byte
	for i, op := range ops {
		switch op.Kind {
		case RefData:
			out = append(out, op.Data...)
		case RefBlockRange:
			if op.File < 0 || op.File >= int64(len(old)) {
				return nil, fmt.Errorf("op %d: file index %d out of range", i, op.File)
			}
			f := old[op.File]
			nblocks := int64((len(f) + blockSize - 1) / blockSize)
			if op.Span < 1 {
				return nil, fmt.Errorf("op %d: span %d < 1", i, op.Span)
			}
			if op.Index < 0 || op.Index+op.Span > nblocks {
				return nil, fmt.Errorf("op %d: blocks [%d,%d) outside file %d with %d blocks", i, op.Index, op.Index+op.Span, op.File, nblocks)
			}
			start := op.Index * int64(blockSize)
			end := (op.Index + op.Span) * int64(blockSize)
			if end > int64(len(f)) {
				end = int64(len(f))
			}
			out = append(out, f[start:end]...)
		default:
			return nil, fmt.Errorf("op %d: unknown kind", i)
		}
	}
	return out, nil
}

type RefOpKind int

const (
	RefBlockRange RefOpKind = iota
	RefData
)

type RefOp struct {
	Kind  RefOpKind
	File  int64
	Index int64
	Span  int64
	Data  []byte
}

// RefBsdiffApply applies control messages to old, starting at oldOffset.
func RefBsdiffApply(ctrl []*bsdiff.Control, old []byte, oldOffset int64) ([]byte, int64, error) {
	var out []byte
	pos := oldOffset
	for i, c := range ctrl {
		if c.Eof {
			break
		}
		if len(c.Add) > 0 {
			if pos < 0 || pos+int64(len(c.Add)) > int64(len(old)) {
				return out, pos, fmt.Errorf("ctrl %d: add region [%d,%d) outside old (len %d)", i, pos, pos+int64(len(c.Add)), len(old))
			}
			for k, a := range c.Add {
				out = append(out, a+old[pos+int64(k)])
			}
			pos += int64(len(c.Add))
		}
		out = append(out, c.Copy...)
		pos += c.Seek
	}
	return out, pos, nil
}

// RefOverlayApply applies an overlay byte stream to old and truncates at the final position.
func RefOverlayApply(ov []byte, old []byte) ([]byte, error) {
	rr := NewRefReader(ov)
	m, err := rr.Magic()
	if err != nil || m != MagicOverlay {
		return nil, fmt.Errorf("overlay magic %x %v", m, err)
	}
	if err := rr.Next(&overlay.OverlayHeader{}); err != nil {
		return nil, fmt.Errorf("overlay header: %w", err)
	}
	out := append([]byte{}, old...)
	pos := 0
	for {
		op := &overlay.OverlayOp{}
		if err := rr.Next(op); err != nil {
			return nil, fmt.Errorf("overlay op at pos %d: %w", pos, err)
		}
		switch op.Type {
		case overlay.OverlayOp_HEY_YOU_DID_IT:
			if pos > len(out) {
				return nil, fmt.Errorf("final position %d beyond file", pos)
			}
			return out[:pos], nil
		case overlay.OverlayOp_SKIP:
			pos += int(op.Len)
			if pos > len(out) {
				return nil, fmt.Errorf("skip beyond old file (pos %d > %d)", pos, len(out))
			}
		case overlay.OverlayOp_FRESH:
			end := pos + len(op.Data)
			if end > len(out) {
				out = append(out, make([]byte, end-len(out))...)
			}
			copy(out[pos:end], op.Data)
			pos = end
		default:
			return nil, fmt.Errorf("unknown overlay op %v", op.Type)
		}
	}
}
