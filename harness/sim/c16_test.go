package sim

import (
	"context"
	"fmt"
	"github.com/itchio/lake/tlc"
	"os"
	"path/filepath"
	"strings"
	"testing"

	"github.com/itchio/headway/state"
	"github.com/itchio/wharf/pwr"
	"pgregory.net/rapid"
)

// TestC16: validation always terminates; a clean fail-fast verdict is never caused by
// interruption.
func TestC16(t *testing.T) {
	Ev.Rule = "generated builds (incl. 1100-1600 tiny files so that wounds exceed the 1024-slot channel, damage only in the last file, empty container) x damage x consumer mode {fail-fast guardian, wounds writer (writable / unwritable path), printer, healer (good / missing / corrupted archive)} x cancellation at a tape-chosen scheduler step (or never) x schedules; non-trivial = damaged directory and (cancelled or consumer fails or > 1024 wounds); distinct by (build, faults, mode, cancel step, schedule log)"
	Ev.Component("ValidatorContext.Validate, validate worker, ValidatingPool relay, AggregateWounds, WoundsGuardian/Writer/Printer, ArchiveHealer", "real")
	Ev.Component("context cancellation (scheduler action at a quiescent point), consumer failure (unwritable wounds path, missing/corrupt archive), goroutine schedule, select choice", "simulated")
	Prop(t, "C16", func(rt *rapid.T) {
		var signed Tree
		many := rapid.IntRange(0, 11).Draw(rt, "manywounds") == 0
		// a slow healer in front of more wounded files than any queue holds, whose archive turns out
		// to be unusable part-way (or whose run is cancelled)
		healQueue := rapid.IntRange(0, 29).Draw(rt, "healqueue") == 0
		if healQueue {
			many = true
		}
		if many {
			signed = Tree{}
			n := rapid.IntRange(1100, 1600).Draw(rt, "nmany")
			// more wounds than the channel holds, produced by the file pass, the directory pass or the
			// symlink pass (the latter two run before the validator's worker exists)
			mk := rapid.IntRange(0, 3).Draw(rt, "manykind")
			if healQueue {
				mk = 0
			}
			for i := 0; i < n; i++ {
				switch {
				case mk == 0 || (mk == 3 && i%3 == 0):
					signed[fmt.Sprintf("m/%04d", i)] = &Entry{Kind: KFile, Data: []byte{byte(i), byte(i >> 8)}}
				case mk == 1 || (mk == 3 && i%3 == 1):
					signed[fmt.Sprintf("d/%04d", i)] = &Entry{Kind: KDir}
				default:
					signed[fmt.Sprintf("l/%04d", i)] = &Entry{Kind: KLink, Dest: fmt.Sprintf("../m/%04d", i)}
				}
			}
			signed.Normalize()
		} else {
			signed = GenTree(rt, GenOpts{Links: true, EmptyDirs: true, MaxMid: 200 * KiB}, rapid.Uint64Range(0, 1<<20).Draw(rt, "poolseed"))
		}
		manyBlocks := !many && rapid.IntRange(0, 39).Draw(rt, "manyblocks") == 0
		if manyBlocks {
			// one file with more blocks than the wound channel has slots (every validated block is a
			// message), followed by another file
			nb := rapid.IntRange(1100, 1400).Draw(rt, "nblocks")
			signed = Tree{"a_big.bin": &Entry{Kind: KFile, Data: Bytes(rapid.Uint64().Draw(rt, "bigseed"), nb*BlockSize+rapid.IntRange(0, 5000).Draw(rt, "bigtail"))},
				"z_small.bin": &Entry{Kind: KFile, Data: Bytes(7, 1000)}}
			Ev.Probe("file_with_more_blocks_than_channel_slots")
		}
		midFile := !many && !manyBlocks && rapid.IntRange(0, 14).Draw(rt, "midfile") == 0
		if midFile {
			// one file of 1-2.5 MiB whose only damage is near its end (cancellation may land anywhere
			// before the damage is reached), optionally followed by a small intact file
			sz := rapid.IntRange(1100, 2500).Draw(rt, "midkib")*KiB + rapid.IntRange(0, 3).Draw(rt, "midodd")*4099
			signed = Tree{"m_mid.bin": &Entry{Kind: KFile, Data: Bytes(rapid.Uint64().Draw(rt, "midseed"), sz)}}
			if rapid.Bool().Draw(rt, "midsecond") {
				signed["z_after.bin"] = &Entry{Kind: KFile, Data: Bytes(3, 5000)}
			}
			Ev.Probe("single_large_file_damaged_near_its_end")
		}
		dmode := rapid.IntRange(0, 6).Draw(rt, "damage") // 0 none, 1 only last file (first byte), 6 only last file (last byte), 2 everything deleted, else faults
		damaged := signed
		var applied []Fault
		files := signed.Files()
		switch {
		case dmode == 0:
		case dmode == 1 && len(files) > 0:
			damaged, applied = ApplyFaults(signed, []Fault{{Kind: "flip", Path: files[len(files)-1], Off: 0}})
			if len(applied) == 0 {
				damaged, applied = ApplyFaults(signed, []Fault{{Kind: "fill", Path: files[len(files)-1], N: 3, Seed: 1}})
			}
		case dmode == 6 && len(files) > 0 && len(signed[files[len(files)-1]].Data) > 0:
			last := files[len(files)-1]
			damaged, applied = ApplyFaults(signed, []Fault{{Kind: "flip", Path: last, Off: len(signed[last].Data) - 1}})
		case midFile:
			n := len(signed["m_mid.bin"].Data)
			damaged, applied = ApplyFaults(signed, []Fault{{Kind: "flip", Path: "m_mid.bin", Off: n - 1 - rapid.IntRange(0, n/8).Draw(rt, "midflip")}})
		case manyBlocks:
			// damage in the first block of the big file (and sometimes its last)
			damaged, applied = ApplyFaults(signed, []Fault{{Kind: "flip", Path: "a_big.bin", Off: rapid.IntRange(0, 100).Draw(rt, "bigflip")}})
		case dmode == 2 || many:
			damaged = signed.Clone()
			for _, p := range files {
				if many && rapid.IntRange(0, 1).Draw(rt, "flipOrDelete") == 0 {
					damaged[p].Data = []byte{0xff, 0xfe, 0xfd}
				} else {
					delete(damaged, p)
				}
			}
			if many {
				// missing directories and symlinks as well
				for p, e := range signed {
					if e.Kind == KLink || (e.Kind == KDir && len(p) > 2) {
						delete(damaged, p)
					}
				}
			}
			applied = []Fault{{Kind: "delete-or-rewrite-all", Path: "*"}}
		default:
			damaged, applied = ApplyFaults(signed, GenFaults(rt, signed, FaultOpts{Content: true, Delete: true, KindSwap: true, Links: true, Special: true, MaxFaults: 5}))
		}
		differs := signed.Diff(damaged) != ""
		cmode := rapid.SampledFrom([]string{"failfast", "failfast", "failfast", "woundsfile", "woundsfile-unwritable", "printer", "heal", "heal-missing-archive", "heal-corrupt-archive"}).Draw(rt, "consumer")
		if many && rapid.Bool().Draw(rt, "manyheal") {
			// more wounded files than any queue holds, handed to a healer whose archive may be unusable
			cmode = rapid.SampledFrom([]string{"heal", "heal-missing-archive", "heal-corrupt-archive"}).Draw(rt, "manyhealmode")
		}
		if healQueue {
			cmode = rapid.SampledFrom([]string{"heal-corrupt-archive", "heal-corrupt-archive", "heal"}).Draw(rt, "healqueuemode")
		}
		cancelAt := -1
		if rapid.IntRange(0, 2).Draw(rt, "docancel") != 0 {
			cancelAt = rapid.IntRange(0, 400).Draw(rt, "cancelstep")
			if rapid.IntRange(0, 3).Draw(rt, "cancelearly") == 0 {
				cancelAt = rapid.IntRange(0, 12).Draw(rt, "cancelstep2")
			}
			if strings.HasPrefix(cmode, "heal") && rapid.Bool().Draw(rt, "cancelmidheal") {
				// healing runs are short: aim inside them
				cancelAt = rapid.IntRange(8, 110).Draw(rt, "cancelstep4")
			}
			if midFile && rapid.Bool().Draw(rt, "cancelmidfile") {
				cancelAt = rapid.IntRange(10, 400).Draw(rt, "cancelstep5")
			}
			if many && rapid.Bool().Draw(rt, "cancellate") {
				cancelAt = rapid.IntRange(400, 20000).Draw(rt, "cancelstep3")
			}
			if healQueue && cmode == "heal" {
				// after the validator is through, while the (slow) healer still has most files to do
				cancelAt = rapid.IntRange(3000, 40000).Draw(rt, "cancelstep6")
			}
		}
		cancelAfterWounds := -1
		if cmode == "printer" && rapid.Bool().Draw(rt, "cancelafterwounds") {
			cancelAfterWounds = rapid.IntRange(1, 5).Draw(rt, "nwounds")
		}
		spec := drawSched(rt)

		dir, cleanup := RunDir()
		defer cleanup()
		pristine := filepath.Join(dir, "signed")
		si := signTree(signed, pristine)
		if rapid.IntRange(0, 3).Draw(rt, "shuffledirs") == 0 {
			shuffleDirs(si, rapid.Uint64().Draw(rt, "shuffleseed"))
		}
		// (the directory's own name is nobody's business: percent signs, spaces, colons)
		target := filepath.Join(dir, rapid.SampledFrom([]string{"target", "target", "target", "100% Orange Juice", "50%", "1:x y", "a#b?c", "Game-1.2.zip", "UPPER.ZIP"}).Draw(rt, "targetname"))
		// ... nor is the way its path is spelled (the string is handed over as it is)
		switch rapid.IntRange(0, 6).Draw(rt, "targetspelling") {
		case 0:
			target = dir + "/./" + filepath.Base(target)
		case 1:
			target = dir + "//" + filepath.Base(target)
		case 2:
			target = target + "/"
		}
		Must(damaged.Materialize(target), "materialize damaged")
		countFaults(applied)
		zipPath := filepath.Join(dir, "build.zip")
		if strings.HasPrefix(cmode, "heal") {
			switch cmode {
			case "heal":
				zipOf(pristine, zipPath)
			case "heal-corrupt-archive":
				zipOf(pristine, zipPath)
				b, _ := os.ReadFile(zipPath)
				// damage stored entry data somewhere in the first half (local headers / data), keep the
				// central directory readable
				if len(b) > 200 {
					for i := 0; i < 5; i++ {
						b[60+int(spec.Seed%uint64(len(b)/2))+i*7] ^= 0xff
					}
				}
				Must(os.WriteFile(zipPath, b, 0o644), "write corrupt zip")
				Ev.Fault("archive_entry_corrupted", 1)
			case "heal-missing-archive":
				Ev.Fault("archive_missing", 1)
			}
		}

		// the context lives inside the bubble (its Done channel must be created and closed there)
		var ctx context.Context
		var cancel context.CancelFunc
		cancelled := false
		vctx := &pwr.ValidatorContext{Consumer: Quiet()}
		seenWounds := 0
		switch cmode {
		case "failfast":
			vctx.FailFast = true
		case "woundsfile":
			vctx.WoundsPath = filepath.Join(dir, "wounds.pww")
		case "woundsfile-unwritable":
			vctx.WoundsPath = filepath.Join(dir, "no-such-dir", "wounds.pww")
			Ev.Fault("wounds_file_unwritable", 1)
		case "printer":
			vctx.Consumer = &state.Consumer{OnMessage: func(lvl, msg string) {
				if strings.Contains(msg, "wound") {
					seenWounds++
					if cancelAfterWounds > 0 && seenWounds == cancelAfterWounds && !cancelled {
						cancelled = true
						cancel()
					}
				}
			}}
		default:
			vctx.HealPath = "archive," + zipPath
		}
		if healQueue {
			spec.Policy, spec.Starve = 3, "pwr.ArchiveHealer.Do"
			Ev.Probe("slow_healer_behind_a_full_queue")
		} else if (many || manyBlocks) && rapid.Bool().Draw(rt, "starve") {
			// one party only runs when nobody else can: queues fill up to their capacity
			spec.Policy = 3
			// (task names are the function a goroutine first parks in: the heal worker is a literal in
			// ArchiveHealer.Do, the consumer and the relays are literals in Validate / GetWriter)
			spec.Starve = rapid.SampledFrom([]string{"pwr.ArchiveHealer.Do", "pwr.ArchiveHealer.Do", "pwr.ArchiveHealer.Do", "pwr.ValidatorContext.validate", "pwr.ValidatorContext.Validate", "pwr.AggregateWounds", "pwr.ValidatingPool"}).Draw(rt, "starvewho")
		}
		s := &Sched{Spec: spec, MaxSteps: 600000}
		s.Setup = func() { ctx, cancel = context.WithCancel(context.Background()) }
		s.Teardown = func() { cancel() }
		if cancelAt >= 0 {
			s.Actions = append(s.Actions, Action{AtStep: cancelAt, Name: "cancel-context", Do: func() {
				if !cancelled {
					cancelled = true
					cancel()
				}
			}})
		}
		// sometimes the same context object was used before, for a validation that failed early: the
		// signature names a directory whose name is longer than this platform allows (Lstat reports
		// ENAMETOOLONG, which is not "missing"), as a signature made elsewhere may
		priorFail := cmode == "failfast" && rapid.IntRange(0, 3).Draw(rt, "priorfailedrun") == 0
		priorCancelEarly := rapid.Bool().Draw(rt, "priorcancelearly")
		var verr error
		s.Run(t, func() {
			if priorFail {
				ctx0, cancel0 := context.WithCancel(context.Background())
				c0 := *si.Container
				c0.Dirs = append([]*tlc.Dir{{Path: "!" + strings.Repeat("n", 300), Mode: 0o755}}, si.Container.Dirs...)
				perr := vctx.Validate(ctx0, pristine, &pwr.SignatureInfo{Container: &c0, Hashes: si.Hashes})
				Ev.ProbeIf(perr != nil, "context_reused_after_a_validation_that_failed_early")
				if priorCancelEarly {
					cancel0()
				} else {
					defer cancel0()
				}
			}
			verr = vctx.Validate(ctx, target, si)
		})
		if s.BudgetExceeded {
			return
		}
		didCancel := cancelled && (len(s.ActionsDone) > 0 || cancelAfterWounds > 0)
		if didCancel {
			Ev.Fault("context_cancelled", 1)
		}
		what := fmt.Sprintf("consumer %s, cancel at step %d (fired %v), cancel after %d wounds, faults %v, %d files, pickbias %d policy %d", cmode, cancelAt, didCancel, cancelAfterWounds, faultStrings(applied), len(files), spec.PickBias, spec.Policy)
		if s.Stuck {
			Violation(rt, "C16/stuck", "Validate never returns: no runnable task (%s)\n%s\ntrace tail:\n%s", what, s.StuckStacks, joinLines(tail(s.Log, 40), 40))
			return
		}
		if s.Panic != "" {
			Violation(rt, "C16/panic", "Validate panicked: %s (%s)", s.Panic, what)
			return
		}
		if cmode == "failfast" && verr == nil && differs {
			Violation(rt, "C16/false-valid", "fail-fast validation returned nil although the directory differs from the signed build (%s)\ntrace tail:\n%s", what, joinLines(tail(s.Log, 40), 40))
			return
		}
		if cmode == "failfast" && !differs && !didCancel && verr != nil {
			Violation(rt, "C16/valid-rejected", "fail-fast validation of a valid directory without interruption returned %v", verr)
			return
		}
		// "a clean verdict is never caused by interruption": whichever consumer is used, nil together
		// with "no wounds seen" for a directory that differs is a clean verdict
		if (cmode == "woundsfile" || cmode == "printer") && verr == nil && differs && didCancel && !vctx.WoundsConsumer.HasWounds() {
			Violation(rt, "C16/clean-verdict-by-interruption", "Validate (%s) was cancelled, returned nil and its consumer reports no wounds, although the directory differs from the signed build (%s)", cmode, what)
			return
		}
		if cmode == "heal" && verr == nil && differs && !priorFail {
			// nil from a healing run says the directory is healed - cancelled or not
			if d := signed.Diff(MustSnapshot(target).Tree); d != "" {
				Violation(rt, "C16/healing-reported-done", "Validate with a healer returned nil (cancelled: %v) but the directory still differs from the signed build: %s (%s)", didCancel, d, what)
				return
			}
		}
		Ev.ProbeIf(s.Leaked, "goroutines_left_blocked_after_return")
		Ev.ProbeIf(many, "more_wounds_than_channel_slots")
		Ev.ProbeIf(didCancel && verr != nil, "cancelled_run_returned_error")
		Ev.ProbeIf(didCancel && verr == nil, "cancelled_run_returned_nil")
		interesting := differs && (didCancel || many || strings.Contains(cmode, "unwritable") || strings.Contains(cmode, "archive"))
		Ev.Eval(signed.Hash()^fnv64([]byte(what))^s.LogHash(), interesting, func() interface{} {
			return map[string]interface{}{"files": len(files), "setup": what, "returned": fmt.Sprint(verr), "sched_steps": s.Steps, "drain_steps": s.DrainSteps, "schedule": s.Trace(40)}
		})
	})
}
