package sim

import (
	stdzip "archive/zip"
	"bytes"
	"fmt"
	"io"
	"os"
	"path/filepath"
	"strconv"
	"strings"
	"syscall"
	"testing"

	"github.com/itchio/headway/state"
	"github.com/itchio/wharf/archiver"
	"pgregory.net/rapid"
)

type simReaderAt struct {
	b       []byte
	yield   func(string)
	gate    func(off int64)      // called before a read is served (stalled reads)
	fail    func(off int64) bool // true: this read fails with ErrInjected
	partial bool                 // failing reads deliver half of the bytes asked for along with the error
}

func (r *simReaderAt) ReadAt(p []byte, off int64) (int, error) {
	// the fate of a read is decided when it is issued: one that was on its way when the
	// connection died still delivers, however late
	failed := r.fail != nil && r.fail(off)
	if failed && r.partial && len(p) > 1 && off < int64(len(r.b)) {
		// part of what was asked for arrives, then the error
		n := copy(p[:len(p)/2], r.b[off:])
		if r.yield != nil {
			r.yield("zip.ReadAt")
		}
		return n, ErrInjected
	}
	if r.yield != nil {
		r.yield("zip.ReadAt")
	}
	if r.gate != nil {
		r.gate(off)
	}
	if failed {
		return 0, ErrInjected
	}
	if off >= int64(len(r.b)) {
		return 0, io.EOF
	}
	n := copy(p, r.b[off:])
	if n < len(p) {
		return n, io.EOF
	}
	return n, nil
}

func genArchiveTree(rt *rapid.T) Tree {
	t := GenTree(rt, GenOpts{Links: true, EmptyDirs: true, MaxFiles: 5, MaxMid: 150 * KiB}, rapid.Uint64Range(0, 1<<20).Draw(rt, "poolseed"))
	n := rapid.SampledFrom([]int{0, 0, 3, 10, 40, 120, 300}).Draw(rt, "nsmall")
	for i := 0; i < n; i++ {
		d := []string{"s", "s/t", "u"}[i%3]
		sz := []int{0, 1, 10, 300, 5000}[(i*7)%5]
		t[fmt.Sprintf("%s/small%03d", d, i)] = &Entry{Kind: KFile, Data: Bytes(uint64(i)*31+5, sz)}
	}
	if rapid.IntRange(0, 9).Draw(rt, "holes") == 0 {
		// files with long runs of zeros (disk images, preallocated databases): whole MiB of them, in
		// the middle and at the very end, sizes on and next to MiB multiples
		mk := func(pre, zeros, post int, seed uint64) []byte {
			return append(append(Bytes(seed, pre), make([]byte, zeros)...), Bytes(seed+1, post)...)
		}
		switch rapid.IntRange(0, 3).Draw(rt, "holekind") {
		case 0:
			t["img/zeros.bin"] = &Entry{Kind: KFile, Data: make([]byte, rapid.SampledFrom([]int{MiB, 2 * MiB, MiB + 1, MiB - 1}).Draw(rt, "zerosize"))}
		case 1:
			t["img/tailhole.bin"] = &Entry{Kind: KFile, Data: mk(MiB, rapid.SampledFrom([]int{MiB, 2 * MiB}).Draw(rt, "tailhole"), 0, 5)}
		case 2:
			t["img/midhole.bin"] = &Entry{Kind: KFile, Data: mk(MiB, MiB, 1000, 6)}
		default:
			t["img/tailhole2.bin"] = &Entry{Kind: KFile, Data: mk(300, 2*MiB-300, 0, 7)}
		}
		Ev.Probe("archive_with_files_holding_MiB_runs_of_zeros")
	}
	if rapid.IntRange(0, 3).Draw(rt, "siblingnames") == 0 {
		// entries whose names differ by a suffix that programs like to use for their own temporary
		// or backup files
		k := rapid.IntRange(1, 3).Draw(rt, "nsiblings")
		for i := 0; i < k; i++ {
			suf := rapid.SampledFrom([]string{".tmp", ".tmp", ".part", "~", ".new", ".bak", ".old", ".0"}).Draw(rt, "sibsuffix")
			base := fmt.Sprintf("sib/x%d", i)
			t[base] = &Entry{Kind: KFile, Data: Bytes(uint64(i)+900, []int{0, 10, 70000, 200 * KiB}[rapid.IntRange(0, 3).Draw(rt, "sibsize")])}
			if rapid.IntRange(0, 3).Draw(rt, "sibdir") == 0 {
				t[base+suf+"/inner"] = &Entry{Kind: KFile, Data: Bytes(uint64(i)+950, 100)}
			} else {
				t[base+suf] = &Entry{Kind: KFile, Data: Bytes(uint64(i)+970, []int{0, 10, 3000}[rapid.IntRange(0, 2).Draw(rt, "sibsize2")])}
			}
		}
		Ev.Probe("sibling_entries_named_X_and_X_plus_suffix")
	}
	return t.Normalize()
}

// genWideArchiveTree: one larger entry that sorts first, then more than a thousand tiny ones.
func genWideArchiveTree(rt *rapid.T) Tree {
	t := Tree{"0slow.bin": &Entry{Kind: KFile, Data: Bytes(rapid.Uint64().Draw(rt, "slowseed"), rapid.SampledFrom([]int{40 * KiB, 200 * KiB}).Draw(rt, "slowsize"))}}
	n := rapid.SampledFrom([]int{1030, 1100, 1500, 2100}).Draw(rt, "nwide")
	if os.Getenv("VERIF_C19_HUGE") == "1" {
		// a part of its own (few runs, they are long): an archive with more entries than any
		// fixed-size table of 8192 slots holds
		n = 8400
	}
	for i := 0; i < n; i++ {
		var d []byte
		if i%16 == 3 {
			d = []byte{byte(i), byte(i >> 8), 7}
		}
		t[fmt.Sprintf("w%d/e%04d", i%3, i)] = &Entry{Kind: KFile, Data: d}
	}
	return t.Normalize()
}

func kindCounts(t Tree) (dirs, files, links int) {
	for _, e := range t {
		switch e.Kind {
		case KDir:
			dirs++
		case KFile:
			files++
		default:
			links++
		}
	}
	return
}

// zipEntryKinds lists the archive's entries in order with an independent reader.
func zipEntryKinds(b []byte) []Kind {
	zr, err := stdzip.NewReader(bytes.NewReader(b), int64(len(b)))
	Must(err, "stdlib zip reader")
	var out []Kind
	for _, f := range zr.File {
		m := f.FileInfo().Mode()
		switch {
		case m.IsDir():
			out = append(out, KDir)
		case m&os.ModeSymlink != 0:
			out = append(out, KLink)
		default:
			out = append(out, KFile)
		}
	}
	return out
}

// TestC19: archive then extract gives the same tree for any concurrency and resume point.
func TestC19(t *testing.T) {
	Ev.Rule = "generated trees (nested + empty dirs, empty files, symlinks, up to 300 small files, a few larger) x {zip, tar}; zip: worker counts 1..16 and -1, workers scheduled at ReadAt / extract message / entry-done / channel operations; crash snapshot (directory + resume file, optionally torn) at a tape-chosen quiescent step, restart with the same resume file; non-trivial = >= 2 workers and >= 5 entries, or a crash+restart; distinct by (tree, concurrency, crash step, schedule log)"
	Ev.Component("archiver.CompressZip/CompressTar/ExtractZip/ExtractTar, arkive zip", "real")
	Ev.Component("archive ReaderAt, consumer callbacks, worker schedule, process crash (snapshot of directory + resume file at a quiescent point, in-progress files and resume file torn), restart", "simulated")
	Ev.Assume("crash snapshots are taken when no I/O is in flight (scheduler quiescence); the resume file may additionally be empty or truncated because os.WriteFile is truncate-then-write")
	Prop(t, "C19", func(rt *rapid.T) {
		wide := rapid.IntRange(0, 14).Draw(rt, "wide") == 0 || os.Getenv("VERIF_C19_HUGE") == "1"
		var tree Tree
		if wide {
			tree = genWideArchiveTree(rt)
			Ev.Probe("archive_with_more_than_1000_entries_behind_a_stalled_one")
		} else {
			tree = genArchiveTree(rt)
		}
		dir, cleanup := RunDir()
		defer cleanup()
		src := filepath.Join(dir, "src")
		Must(tree.Materialize(src), "materialize")
		if rapid.IntRange(0, 3).Draw(rt, "srcthroughlink") == 0 {
			// the tree to archive is named by a symbolic link to it ("builds/current -> v42")
			Must(os.Symlink("src", filepath.Join(dir, "current")), "symlink current")
			src = filepath.Join(dir, "current")
			Ev.Probe("source_directory_named_by_a_symlink")
		}
		// where the tree is extracted to is the caller's business: the path may lead through a
		// symbolic link (a mounted volume, "current -> releases/42")
		destBase := dir
		if rapid.IntRange(0, 3).Draw(rt, "destthroughlink") == 0 {
			Must(os.MkdirAll(filepath.Join(dir, "volume"), 0o755), "mkdir volume")
			Must(os.Symlink("volume", filepath.Join(dir, "mnt")), "symlink mnt")
			destBase = filepath.Join(dir, "mnt")
			Ev.Probe("destination_path_leads_through_a_symlink")
		}
		wantD, wantF, wantL := kindCounts(tree)
		// sometimes something that cannot be archived sits in the middle of the directory (a unix
		// socket node): the compressor may refuse with an error - or leave it out - but it must not
		// report success for an archive that has lost the entries that come after it
		withSocket := !wide && rapid.IntRange(0, 7).Draw(rt, "socket") == 0
		if withSocket {
			Must(syscall.Mknod(filepath.Join(src, "m.sock"), syscall.S_IFSOCK|0o644, 0), "mknod socket")
			Ev.Fault("unarchivable_entry_in_source(socket)", 1)
		}

		if !wide && rapid.IntRange(0, 4).Draw(rt, "tar") == 0 {
			var buf bytes.Buffer
			if _, err := archiver.CompressTar(&buf, src, Quiet()); err != nil {
				if withSocket {
					Ev.Probe("compressor_refused_unarchivable_entry")
					return
				}
				Violation(rt, "C19/compress-tar", "CompressTar: %v", err)
				return
			}
			tarPath := filepath.Join(dir, "a.tar")
			Must(os.WriteFile(tarPath, buf.Bytes(), 0o644), "write tar")
			out := filepath.Join(destBase, "untar")
			var res *archiver.ExtractResult
			var err error
			if p := Recover(func() { res, err = archiver.ExtractTar(tarPath, out, archiver.ExtractSettings{Consumer: Quiet()}) }); p != "" || err != nil {
				Violation(rt, "C19/extract-tar", "ExtractTar: %v %s", err, p)
				return
			}
			gotTar := MustSnapshot(out).Tree
			if withSocket {
				delete(gotTar, "m.sock") // whatever became of the socket itself
			}
			if d := tree.Diff(gotTar); d != "" {
				Violation(rt, "C19/tar-wrong-tree", "tar round trip (socket in source: %v, CompressTar returned nil): %s", withSocket, d)
				return
			}
			if withSocket {
				return
			}
			if res.Dirs != wantD || res.Files != wantF || res.Symlinks != wantL {
				Violation(rt, "C19/tar-counts", "ExtractTar reports %d dirs %d files %d symlinks, archive has %d/%d/%d", res.Dirs, res.Files, res.Symlinks, wantD, wantF, wantL)
				return
			}
			Ev.Probe("tar_round_trip")
			Ev.Eval(tree.Hash()^1, len(tree) > 0, func() interface{} { return map[string]interface{}{"format": "tar", "entries": len(tree)} })
			return
		}

		var zbuf bytes.Buffer
		if _, err := archiver.CompressZip(&zbuf, src, Quiet()); err != nil {
			if withSocket {
				Ev.Probe("compressor_refused_unarchivable_entry")
				return
			}
			Violation(rt, "C19/compress-zip", "CompressZip: %v", err)
			return
		}
		if withSocket {
			// zip takes the socket for an empty entry: extract plainly and compare the rest
			outS := filepath.Join(dir, "outsock")
			if _, err := archiver.ExtractZip(&simReaderAt{b: zbuf.Bytes()}, int64(zbuf.Len()), outS, archiver.ExtractSettings{Consumer: Quiet(), Concurrency: 2}); err != nil {
				Violation(rt, "C19/extract-error", "ExtractZip of an archive made from a directory with a socket: %v", err)
				return
			}
			gotZ := MustSnapshot(outS).Tree
			delete(gotZ, "m.sock")
			if d := tree.Diff(gotZ); d != "" {
				Violation(rt, "C19/zip-wrong-tree", "zip round trip (socket in source, CompressZip returned nil): %s", d)
			}
			return
		}
		zb := zbuf.Bytes()
		kinds := zipEntryKinds(zb)
		conc := rapid.SampledFrom([]int{1, 2, 2, 3, 4, 8, 16, -1, -1, 0}).Draw(rt, "concurrency")
		spec := drawSched(rt)
		crashAt := -1
		if rapid.IntRange(0, 2).Draw(rt, "docrash") != 0 {
			crashAt = rapid.IntRange(0, 60+len(kinds)*8).Draw(rt, "crashstep")
		}
		// wide archives: reads of the first (larger) entry stall until a drawn number of later entries
		// are done (a slow range of the download); the crash snapshot is taken by the stalled reader
		// while every other task is parked
		stallUntil, crashDone := 0, -1
		var slowLo, slowHi int64
		if wide {
			conc = rapid.SampledFrom([]int{2, 3, 4, 8}).Draw(rt, "wideconcurrency")
			stallUntil = rapid.IntRange(0, len(kinds)-1).Draw(rt, "stalluntil")
			if len(kinds) > 8000 {
				// (an archive this long is here for what happens when thousands of entries are done
				// while an early one is still on its way)
				stallUntil = len(kinds) - 1 - rapid.IntRange(0, 100).Draw(rt, "stalluntillate")
				Ev.Probe("more_than_8192_entries_done_behind_a_stalled_one")
			}
			crashAt = -1
			if rapid.IntRange(0, 3).Draw(rt, "widecrash") != 0 {
				crashDone = rapid.IntRange(0, stallUntil).Draw(rt, "crashdone")
			}
			zr, err := stdzip.NewReader(bytes.NewReader(zb), int64(len(zb)))
			Must(err, "stdlib zip reader")
			for _, f := range zr.File {
				if f.Name == "0slow.bin" {
					o, err := f.DataOffset()
					Must(err, "data offset")
					slowLo, slowHi = o+1, o+int64(f.CompressedSize64)
				}
			}
		}
		tearMode := rapid.IntRange(0, 4).Draw(rt, "tear")
		out := filepath.Join(destBase, "out")
		resume := filepath.Join(dir, "resume.txt")

		type crash struct {
			disk   *Snap
			resume []byte // nil: no resume file
			step   int
			inprog []string
		}
		var cr *crash
		inprog := map[string]bool{}
		s := &Sched{Spec: spec, MaxSteps: 1500000}
		cons := &state.Consumer{OnMessage: func(lvl, msg string) {
			if strings.HasPrefix(msg, "extract ") {
				s.mu.Lock()
				inprog[strings.TrimPrefix(msg, "extract ")] = true
				s.mu.Unlock()
				s.Yield("extract-msg")
			}
		}}
		if crashAt >= 0 {
			s.Actions = append(s.Actions, Action{AtStep: crashAt, Name: "crash-snapshot", Do: func() {
				c := &crash{disk: MustSnapshot(out), step: s.Steps}
				if b, err := os.ReadFile(resume); err == nil {
					c.resume = b
				}
				s.mu.Lock()
				for p := range inprog {
					c.inprog = append(c.inprog, p)
				}
				s.mu.Unlock()
				cr = c
			}})
		}
		var res *archiver.ExtractResult
		var xerr error
		entriesDone, stalls := 0, 0
		ra := &simReaderAt{b: zb, yield: s.Yield}
		if wide {
			ra.gate = func(off int64) {
				if off < slowLo || off >= slowHi {
					return
				}
				for {
					s.mu.Lock()
					done := entriesDone
					s.mu.Unlock()
					if crashDone >= 0 && cr == nil && done >= crashDone {
						c := &crash{disk: MustSnapshot(out), step: s.Steps}
						if b, err := os.ReadFile(resume); err == nil {
							c.resume = b
						}
						s.mu.Lock()
						for p := range inprog {
							c.inprog = append(c.inprog, p)
						}
						s.mu.Unlock()
						cr = c
					}
					if done >= stallUntil || stalls > 300000 {
						return
					}
					stalls++
					s.Yield("zip.ReadAt.stalled")
				}
			}
		}
		// invariant, evaluated at every quiescent step: whatever index the resume file names, every
		// entry up to and including it has been extracted completely (a process killed at that very
		// instant and restarted would skip them)
		entryIndex := map[string]int{}
		{
			zr, err := stdzip.NewReader(bytes.NewReader(zb), int64(len(zb)))
			Must(err, "stdlib zip reader")
			for i, f := range zr.File {
				entryIndex[strings.TrimSuffix(f.Name, "/")] = i
			}
		}
		entryName := make([]string, len(kinds))
		for n, i := range entryIndex {
			entryName[i] = n
		}
		// (verified: every entry up to there was found complete on disk when the resume file first named it)
		mkInv := func(out, resume string, verified int) func(int) string {
			return func(step int) string {
				b, err := os.ReadFile(resume)
				if err != nil || len(b) == 0 {
					return ""
				}
				r, perr := strconv.ParseInt(string(b), 10, 64)
				if perr != nil {
					return ""
				}
				if int(r) >= len(kinds) {
					return fmt.Sprintf("resume file reads %q, the archive has %d entries", string(b), len(kinds))
				}
				for i := verified + 1; i <= int(r); i++ {
					want, ok := tree[entryName[i]]
					if !ok {
						continue
					}
					full := filepath.Join(out, filepath.FromSlash(entryName[i]))
					fi, err := os.Lstat(full)
					bad := ""
					switch {
					case err != nil:
						bad = "is not there"
					case want.Kind == KDir && !fi.IsDir():
						bad = "is not a directory"
					case want.Kind == KLink:
						if d, lerr := os.Readlink(full); lerr != nil || d != want.Dest {
							bad = "is not the symlink it should be"
						}
					case want.Kind == KFile:
						if got, rerr := os.ReadFile(full); rerr != nil || !bytes.Equal(got, want.Data) {
							bad = fmt.Sprintf("is incomplete (%d of %d bytes)", len(got), len(want.Data))
						}
					}
					if bad != "" {
						return fmt.Sprintf("resume file reads %q but entry %d (%s) %s", string(b), i, entryName[i], bad)
					}
					verified = i
				}
				return ""
			}
		}
		s.Invariant = mkInv(out, resume, -1)
		// sometimes the source fails while one entry's data is read (a dropped connection): ExtractZip
		// returns that error, and the caller starts over at once, in the same process, with the same
		// resume file and a source that works. Whatever the first call still has in flight must not
		// touch the directory any more.
		failEntry := -1
		restartFinished := false
		if !wide && crashAt < 0 && len(kinds) >= 3 && rapid.IntRange(0, 1).Draw(rt, "sourcefails") == 0 {
			failEntry = rapid.IntRange(0, len(kinds)-1).Draw(rt, "failentry")
			zr, err := stdzip.NewReader(bytes.NewReader(zb), int64(len(zb)))
			Must(err, "stdlib zip reader")
			f := zr.File[failEntry]
			if o, err := f.DataOffset(); err == nil && f.CompressedSize64 > 0 {
				lo, hi := o, o+int64(f.CompressedSize64)
				// one other entry's reads that were issued before the connection died are slow: they
				// deliver, but only after the caller has long started over (or after a few thousand
				// scheduler steps, whichever comes first)
				if se := rapid.IntRange(0, len(kinds)-1).Draw(rt, "slowentry"); se != failEntry {
					if so, err := zr.File[se].DataOffset(); err == nil {
						hdrLo, hdrHi := int64(0), so
						if se > 0 {
							if po, perr := zr.File[se-1].DataOffset(); perr == nil {
								hdrLo = po + int64(zr.File[se-1].CompressedSize64)
							}
						}
						spins := 0
						ra.gate = func(off int64) {
							if off < hdrLo || off >= hdrHi {
								return
							}
							for !restartFinished && spins < 4000 {
								spins++
								s.Yield("zip.ReadAt.slow-response")
							}
						}
					}
				}
				// (once the connection is gone, it is gone for every read of that source)
				dead := false
				onlyThere := kinds[failEntry] == KLink // a symlink's few bytes: the error stays local to them
				ra.partial = rapid.Bool().Draw(rt, "partialfail")
				ra.fail = func(off int64) bool {
					if off >= lo && off < hi {
						if onlyThere {
							return true
						}
						dead = true
					}
					return dead
				}
				s.Invariant = nil // the resume file is about to be shared by two calls
			} else {
				failEntry = -1
			}
		}
		retried := false
		s.Run(t, func() {
			res, xerr = archiver.ExtractZip(ra, int64(len(zb)), out, archiver.ExtractSettings{
				Consumer: cons, Concurrency: conc, ResumeFrom: resume,
				OnEntryDone: func(p string) {
					s.mu.Lock()
					delete(inprog, filepath.Join(out, filepath.FromSlash(p)))
					entriesDone++
					s.mu.Unlock()
					s.Yield("entry-done")
				},
			})
			if failEntry >= 0 && xerr != nil {
				retried = true
				Ev.Fault("source_read_error_then_restart_in_process", 1)
				res, xerr = archiver.ExtractZip(&simReaderAt{b: zb, yield: s.Yield}, int64(len(zb)), out, archiver.ExtractSettings{
					Consumer: Quiet(), Concurrency: conc, ResumeFrom: resume,
				})
				restartFinished = true
			}
		})
		if failEntry >= 0 && !retried && !s.BudgetExceeded && !s.Stuck && s.Panic == "" && xerr == nil {
			// the source failed inside an entry and ExtractZip says everything went fine
			if d := tree.Diff(MustSnapshot(out).Tree); d != "" {
				Violation(rt, "C19/source-error-swallowed", "the source failed while entry %d was read, ExtractZip returned nil, and the tree is wrong: %s (%d entries, concurrency %d)", failEntry, d, len(kinds), conc)
				return
			}
		}
		if retried && !s.BudgetExceeded && !s.Stuck && s.Panic == "" {
			if xerr != nil {
				Violation(rt, "C19/resume-failed", "ExtractZip started over after a source error (entry %d) failed: %v", failEntry, xerr)
				return
			}
			Ev.ProbeIf(s.DrainSteps > 0, "first_call_left_goroutines_behind_that_ran_after_the_restart_returned")
			// (the scheduler has meanwhile run every goroutine the first call left behind to its end)
			if d := tree.Diff(MustSnapshot(out).Tree); d != "" {
				Violation(rt, "C19/stray-worker-after-return", "ExtractZip returned a source error (entry %d) while workers were still running; the caller started over with the same resume file, that run succeeded - and afterwards the tree is wrong: %s (%d entries, concurrency %d, policy %d)\nschedule tail:\n%s", failEntry, d, len(kinds), conc, spec.Policy, joinLines(tail(s.Log, 30), 30))
				return
			}
			Ev.Eval(tree.Hash()^fnv64([]byte(fmt.Sprint("retry", failEntry, conc)))^s.LogHash(), true, func() interface{} {
				return map[string]interface{}{"format": "zip", "setup": fmt.Sprintf("%d entries, concurrency %d, source fails in entry %d, restart in process", len(kinds), conc, failEntry), "sched_steps": s.Steps}
			})
			return
		}
		if s.BudgetExceeded {
			return
		}
		setup := fmt.Sprintf("%d entries, concurrency %d, crash snapshot at step %d, tear mode %d, policy %d", len(kinds), conc, crashAt, tearMode, spec.Policy)
		if s.InvariantFail != "" {
			Violation(rt, "C19/resume-index-ahead", "%s (%s)\nschedule tail:\n%s", s.InvariantFail, setup, joinLines(tail(s.Log, 30), 30))
			return
		}
		if s.Stuck || s.Panic != "" {
			Violation(rt, "C19/extract-stuck-or-panic", "ExtractZip: stuck=%v panic=%s (%s)\n%s", s.Stuck, s.Panic, setup, s.StuckStacks)
			return
		}
		if xerr != nil {
			Violation(rt, "C19/extract-error", "ExtractZip: %v (%s)", xerr, setup)
			return
		}
		if d := tree.Diff(MustSnapshot(out).Tree); d != "" {
			Violation(rt, "C19/zip-wrong-tree", "zip round trip: %s (%s)", d, setup)
			return
		}
		if res.Dirs != wantD || res.Files != wantF || res.Symlinks != wantL {
			Violation(rt, "C19/zip-counts", "ExtractZip reports %d dirs %d files %d symlinks, %d/%d/%d were extracted (%s)", res.Dirs, res.Files, res.Symlinks, wantD, wantF, wantL, setup)
			return
		}
		if _, err := os.Stat(resume); err == nil {
			Ev.Probe("resume_file_left_behind_after_success")
		}

		restarted := false
		Ev.Fault("stalled_archive_reads", stalls)
		if cr != nil && cr.step < s.Steps-s.DrainSteps {
			// the process died at the snapshot: build the crash state and restart
			restarted = true
			rng := NewRng(spec.Seed ^ uint64(crashAt))
			out2 := filepath.Join(destBase, "out2")
			crashTree := cr.disk.Tree.Clone()
			torn := 0
			if tearMode >= 2 {
				for _, p := range cr.inprog {
					rel, _ := filepath.Rel(out, p)
					rel = filepath.ToSlash(rel)
					if e, ok := crashTree[rel]; ok && e.Kind == KFile && len(e.Data) > 0 {
						e.Data = e.Data[:rng.Intn(len(e.Data))]
						torn++
					}
				}
			}
			Must(crashTree.Materialize(out2), "materialize crash state")
			resume2 := filepath.Join(dir, "resume2.txt")
			rb := cr.resume
			switch {
			case rb == nil:
			case tearMode == 1 || tearMode == 3:
				rb = []byte{} // truncate-then-write interrupted
				Ev.Fault("resume_file_torn_empty", 1)
			case tearMode == 4 && len(rb) > 1:
				rb = rb[:len(rb)-1]
				Ev.Fault("resume_file_torn_digits", 1)
			}
			if rb != nil {
				Must(os.WriteFile(resume2, rb, 0o644), "write resume file")
			}
			Ev.Fault("crash_restart", 1)
			Ev.Fault("in_progress_file_torn", torn)
			lastDone := -1
			if rb != nil {
				if v, err := strconv.ParseInt(string(rb), 10, 64); err == nil {
					lastDone = int(v)
				}
			}
			var res2 *archiver.ExtractResult
			var err2 error
			conc2 := rapid.SampledFrom([]int{1, 2, 4, 8}).Draw(rt, "concurrency2")
			if !wide && rapid.Bool().Draw(rt, "scheduledrestart") {
				// the restarted run is scheduled, too, and its resume file is held to the same invariant
				// at every step: it may be interrupted in turn
				s2 := &Sched{Spec: drawSched(rt), MaxSteps: 400000}
				s2.Invariant = mkInv(out2, resume2, lastDone)
				var p2 string
				s2.Run(t, func() {
					p2 = Recover(func() {
						res2, err2 = archiver.ExtractZip(&simReaderAt{b: zb, yield: s2.Yield}, int64(len(zb)), out2, archiver.ExtractSettings{Consumer: Quiet(), Concurrency: conc2, ResumeFrom: resume2,
							OnEntryDone: func(string) { s2.Yield("entry-done") }})
					})
				})
				if s2.BudgetExceeded {
					return
				}
				if s2.Stuck {
					Violation(rt, "C19/stuck", "restarted ExtractZip never returns (%s, resume file %q, concurrency %d)\n%s", setup, string(rb), conc2, s2.StuckStacks)
					return
				}
				if s2.InvariantFail != "" {
					Violation(rt, "C19/resume-index-ahead", "in the restarted run (resume file %q, concurrency %d): %s (%s)\nschedule tail:\n%s", string(rb), conc2, s2.InvariantFail, setup, joinLines(tail(s2.Log, 30), 30))
					return
				}
				if p2 != "" || s2.Panic != "" || err2 != nil {
					Violation(rt, "C19/resume-failed", "restarted ExtractZip: %v %s%s (%s, resume file %q)", err2, p2, s2.Panic, setup, string(rb))
					return
				}
				Ev.Probe("restarted_run_scheduled_with_resume_invariant")
			} else if p := Recover(func() {
				res2, err2 = archiver.ExtractZip(&simReaderAt{b: zb}, int64(len(zb)), out2, archiver.ExtractSettings{Consumer: Quiet(), Concurrency: conc2, ResumeFrom: resume2})
			}); p != "" || err2 != nil {
				Violation(rt, "C19/resume-failed", "restarted ExtractZip: %v %s (%s, resume file %q)", err2, p, setup, string(rb))
				return
			}
			if d := tree.Diff(MustSnapshot(out2).Tree); d != "" {
				Violation(rt, "C19/resume-incomplete", "after crash at step %d and restart with resume file %q (first run: concurrency %d) the tree is incomplete: %s (%s)\nschedule tail before the crash:\n%s", cr.step, string(rb), conc, d, setup, joinLines(tail(s.Log[:min(len(s.Log), cr.step+40)], 30), 30))
				return
			}
			var ed, ef, el int
			for i, k := range kinds {
				if i > lastDone {
					switch k {
					case KDir:
						ed++
					case KFile:
						ef++
					default:
						el++
					}
				}
			}
			if res2.Dirs != ed || res2.Files != ef || res2.Symlinks != el {
				Violation(rt, "C19/resume-counts", "restarted ExtractZip (resume index %d) reports %d/%d/%d, it extracted %d/%d/%d entries (%s)", lastDone, res2.Dirs, res2.Files, res2.Symlinks, ed, ef, el, setup)
				return
			}
			Ev.ProbeIf(lastDone >= 0, "resumed_past_some_entries")
		}
		Ev.ProbeIf(s.Leaked, "goroutines_left_blocked_after_return")
		Ev.Eval(tree.Hash()^fnv64([]byte(setup))^s.LogHash(), (conc != 1 && len(kinds) >= 5) || restarted, func() interface{} {
			return map[string]interface{}{"format": "zip", "setup": setup, "restarted": restarted, "sched_steps": s.Steps, "schedule": s.Trace(40)}
		})
	})
}
