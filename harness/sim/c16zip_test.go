package sim

import (
	"bytes"
	"context"
	"fmt"
	"os"
	"path/filepath"
	"testing"

	stdzip "archive/zip"

	"github.com/itchio/lake/pools"
	"github.com/itchio/lake/tlc"
	"github.com/itchio/wharf/pwr"
	"pgregory.net/rapid"
)

// TestC16ZipTarget: the directory being validated may be a flat .zip (pools.New supports it). One
// entry's deflate stream is damaged in a way that makes reading it fail AND closing the pool fail:
// validation must still return, with an error, in every consumer mode.
func TestC16ZipTarget(t *testing.T) {
	Ev.Property = "C16"
	Prop(t, "C16", func(rt *rapid.T) {
		dir, cleanup := RunDir()
		defer cleanup()
		zipPath := filepath.Join(dir, "build.zip")
		n := rapid.IntRange(1, 6).Draw(rt, "entries")
		var buf bytes.Buffer
		zw := stdzip.NewWriter(&buf)
		for i := 0; i < n; i++ {
			// (entries may lie in folders: the archive is the build, folders and all)
			w, err := zw.CreateHeader(&stdzip.FileHeader{Name: rapid.SampledFrom([]string{"", "", "sub/", "sub/deep/"}).Draw(rt, "folder") + fmt.Sprintf("file-%d", i), Method: stdzip.Deflate})
			Must(err, "zip header")
			_, err = w.Write(LowEntropy(uint64(i)+rapid.Uint64().Draw(rt, "seed"), rapid.IntRange(1, 200*KiB).Draw(rt, "size"), 3))
			Must(err, "zip write")
		}
		Must(zw.Close(), "zip close")
		Must(os.WriteFile(zipPath, buf.Bytes(), 0o644), "write zip")
		container, err := tlc.WalkAny(zipPath, tlc.WalkOpts{})
		Must(err, "walk zip")
		pool, err := pools.New(container, zipPath)
		Must(err, "zip pool")
		hashes, err := pwr.ComputeSignature(context.Background(), container, pool, Quiet())
		Must(err, "signature of zip")
		pool.Close()
		si := &pwr.SignatureInfo{Container: container, Hashes: hashes}
		if err := pwr.AssertValid(zipPath, si); err != nil {
			Violation(rt, "C16/valid-rejected", "an intact zip does not validate against its own signature: %v", err)
			return
		}
		// damage: the first byte of one entry's deflate stream becomes a final block of reserved type
		zr, err := stdzip.NewReader(bytes.NewReader(buf.Bytes()), int64(buf.Len()))
		Must(err, "reopen zip")
		victim := rapid.IntRange(0, n-1).Draw(rt, "victim")
		off, err := zr.File[victim].DataOffset()
		Must(err, "data offset")
		b := append([]byte{}, buf.Bytes()...)
		b[off] = 0x07
		Must(os.WriteFile(zipPath, b, 0o644), "write damaged zip")
		Ev.Fault("target_zip_entry_corrupted(read_and_close_fail)", 1)

		cmode := rapid.SampledFrom([]string{"failfast", "woundsfile", "printer"}).Draw(rt, "consumer")
		vctx := &pwr.ValidatorContext{Consumer: Quiet()}
		switch cmode {
		case "failfast":
			vctx.FailFast = true
		case "woundsfile":
			vctx.WoundsPath = filepath.Join(dir, "wounds.pww")
		}
		spec := drawSched(rt)
		var ctx context.Context
		var cancel context.CancelFunc
		s := &Sched{Spec: spec, MaxSteps: 200000}
		s.Setup = func() { ctx, cancel = context.WithCancel(context.Background()) }
		s.Teardown = func() { cancel() }
		var verr error
		s.Run(t, func() { verr = vctx.Validate(ctx, zipPath, si) })
		if s.BudgetExceeded {
			return
		}
		what := fmt.Sprintf("zip target of %d deflated entries, entry %d damaged, consumer %s", n, victim, cmode)
		if s.Stuck {
			Violation(rt, "C16/stuck", "Validate never returns: no runnable task (%s)\n%s", what, s.StuckStacks)
			return
		}
		if s.Panic != "" {
			Violation(rt, "C16/panic", "Validate panicked: %s (%s)", s.Panic, what)
			return
		}
		if cmode == "failfast" && verr == nil {
			Violation(rt, "C16/false-valid", "fail-fast validation of a zip with a damaged entry returned nil (%s)", what)
			return
		}
		Ev.Eval(fnv64(b, []byte(cmode))^s.LogHash(), true, func() interface{} {
			return map[string]interface{}{"setup": what, "returned": fmt.Sprint(verr), "sched_steps": s.Steps}
		})
	})
}
