#!/bin/bash
# tools_confirm.sh <worktree> <A|B> <tier> <prop>... : confirm a sub-agent's change in its scratch worktree
# (suite passes with it, demo fails with it, demo passes without it), then run the given checks on it.
wt=$1; which=$2; tier=$3; shift 3
name=$(basename $wt)$which
res=/tmp/mut/results; mkdir -p $res
log=$res/$name.txt; : > $log
export GOFLAGS=-mod=mod GOPROXY=off
cd $wt || exit 1
git checkout -q -- . 2>/dev/null; find . -name 'zz_demo_*_test.go' -not -path './_out/*' -delete
demo=_out/zz_demo_${which}_test.go
pkgdir=$(head -3 $demo | grep -o 'place in: *[^ ]*' | sed 's/place in: *//' | head -1); pkgdir=${pkgdir%/}
[ -z "$pkgdir" ] && { echo "NO-PKGDIR $name" | tee -a $log; exit 1; }
cp $demo $pkgdir/
# without the change: demo must pass
if go test -vet=off -count=1 -run "TestDemo$which\$" ./$pkgdir/ >> $log 2>&1; then echo "demo passes without change: yes" >> $log; else echo "demo passes without change: NO" >> $log; fi
git apply --whitespace=nowarn _out/$which.diff >> $log 2>&1 || { echo "DIFF-DOES-NOT-APPLY" >> $log; }
go build ./... >> $log 2>&1 && echo "builds with change: yes" >> $log || echo "builds with change: NO" >> $log
if go test -vet=off -count=1 -run "TestDemo$which\$" ./$pkgdir/ >> $log 2>&1; then echo "demo fails with change: NO" >> $log; else echo "demo fails with change: yes" >> $log; fi
rm -f $pkgdir/$(basename $demo)
if go test -vet=off -count=1 ./... > $res/$name.suite.log 2>&1; then echo "suite passes with change: yes" >> $log; else echo "suite passes with change: NO" >> $log; fi
git checkout -q -- .
cd /verif
./tools_mutant.sh $name $wt/_out/$which.diff $tier "$@" >> $log 2>&1
grep -E "^(demo|builds|suite|CAUGHT|MISSED|TROUBLE|PATCH)" $log | sed "s/^/[$name] /"
